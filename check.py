#!/venv/bin/python
"""Entry point of the deterministic-simulation checks for metomi/isodatetime.

  check.py C15|C16|C18|C19 [--tier quick|thorough]
  check.py replay <replay.json>
  check.py selftest-determinism [PROP ...]
  check.py selftest-mutants [PROP ...]

exit 0  property held on everything explored (KNOWN-FINDING lines allowed)
exit 1  "VIOLATION property=<id> replay=<path>" printed
exit 2  harness error (timeout, crashed child, non-determinism)
"""
import importlib
import json
import os
import sys

HERE = os.path.dirname(os.path.abspath(__file__))
sys.path.insert(0, HERE)
sys.dont_write_bytecode = True

from isosim import kernel  # noqa: E402

WORKLOADS = {"C15": "isosim.w_c15", "C16": "isosim.w_c16",
             "C18": "isosim.w_c18", "C19": "isosim.w_c19"}


def load_workload(prop):
    return importlib.import_module(WORKLOADS[prop])


def seed_from_env():
    try:
        return int(os.environ.get("VERIF_SEED", "0"))
    except ValueError:
        return 0


def workers_from_env():
    try:
        return max(1, int(os.environ.get("VERIF_WORKERS", "16")))
    except ValueError:
        return 16


def sweep_stale_temp_files(max_age_s=3600):
    """Trace files handed to spawned interpreters are removed by the code
    that wrote them; a job child killed mid-run (stop on first violation, a
    deadline) can leave one behind.  Old ones are swept here."""
    import glob
    import tempfile
    import time
    now = time.time()
    for pattern in ("verif-host-*.json", "verif-lazy-*.json",
                    "verif-solo-*.json"):
        for path in glob.glob(os.path.join(tempfile.gettempdir(), pattern)):
            try:
                if now - os.path.getmtime(path) > max_age_s:
                    os.remove(path)
            except OSError:
                pass


def run_check(prop, tier):
    sweep_stale_temp_files()
    wl = load_workload(prop)
    seed = seed_from_env()
    workers = workers_from_env()
    print("check %s tier=%s VERIF_SEED=%d workers=%d repo=%s" % (
        prop, tier, seed, workers, kernel.REPO))
    sys.stdout.flush()
    t0 = kernel._real_monotonic()
    kernel.import_library()   # pristine orchestrator: import, then hands off
    jobs = wl.jobs_for(tier, seed)
    timeout = 900 if tier == "quick" else 6 * 3600
    findings = kernel.load_known_findings(prop)
    agg = kernel.run_batch(
        wl, jobs, workers, timeout, findings=findings,
        stop_on_violation=bool(os.environ.get("VERIF_STOP_ON_VIOLATION")))
    if agg.harness_errors:
        for e in agg.harness_errors[:5]:
            print("HARNESS-ERROR: %s" % e)
        print("HARNESS-ERROR: %d run(s) failed in the machinery" %
              len(agg.harness_errors))
        return 2
    unknown = agg.violations
    for i, f in enumerate(findings):
        print("KNOWN-FINDING: property=%s %s [%s]" % (
            prop, f["what"],
            "observed %d time(s) in this run" % agg.known_hits[i]
            if agg.known_hits.get(i) else "not re-observed in this run"))
    status = 0
    replay_paths = []
    if unknown:
        status = 1
        done_keys = set()
        for v in unknown:
            key = kernel.violation_key(v)
            if key in done_keys or len(done_keys) >= 3:
                continue
            done_keys.add(key)
            trace = wl.make_trace(tuple(v["job"]))
            try:
                small, tests = kernel.minimise(
                    wl, trace, key, hint_step=v.get("step"),
                    budget_s=float(os.environ.get(
                        "VERIF_MIN_BUDGET",
                        "120" if tier == "quick" else "400")))
                vs = [x for x in wl.check_trace(small)
                      if kernel.violation_key(x) == key]
            except kernel.HarnessError as exc:
                print("HARNESS-ERROR: minimisation failed: %s" % exc)
                small, tests, vs = trace, 0, [v]
            final = vs[0] if vs else v
            path = kernel.write_replay(prop, seed, small, final)
            replay_paths.append(path)
            print("violation: %s" % json.dumps(final, default=str)[:1500])
            print("minimised to %d step(s) in %d test(s)" % (
                len(small["steps"]), tests))
            print("VIOLATION property=%s replay=%s" % (prop, path))
    # determinism spot check: the first runs again, twice, digests compared
    spot_jobs = [] if unknown else jobs[:8] + jobs[-4:]
    d1 = kernel.run_batch(wl, spot_jobs, workers, 1800, keep_digests=True)
    d2 = kernel.run_batch(wl, spot_jobs, max(1, workers // 4), 1800,
                          keep_digests=True)
    if d1.harness_errors or d2.harness_errors or d1.digests != d2.digests:
        print("HARNESS-ERROR: determinism spot check failed: %s" % (
            (d1.harness_errors + d2.harness_errors)[:2] or sorted(
                k for k in d1.digests
                if d1.digests[k] != d2.digests.get(k))))
        return 2
    wl._spot = {"runs_repeated": len(d1.digests), "digest_mismatches": 0}
    cross = {}
    if (tier == "thorough" or os.environ.get("VERIF_CROSSCHECK")) and hasattr(
            wl, "crosscheck"):
        cross = wl.crosscheck(seed, workers=workers)
        for key, val in cross.items():
            if key.endswith("mismatches") and val:
                # the trusted base (fork = fresh process, in-process main =
                # real CLI process) does not hold: nothing above is believed
                print("HARNESS-ERROR: cross-check failed: %s" % json.dumps(
                    val[:2], default=str)[:800])
                return 2
        print("cross-check: %s" % json.dumps(
            {k: v for k, v in cross.items() if not isinstance(v, list)}))
    wl._cross = cross
    wall = kernel._real_monotonic() - t0
    if not os.environ.get("VERIF_NO_EVIDENCE"):
        write_evidence(prop, wl, tier, seed, agg, wall, agg.n_unknown,
                       workers, replay_paths, len(jobs))
    stuck = sorted(p for p in getattr(wl, "EXPECTED_PROBES", [])
                   if not agg.counters.get("probe." + p))
    unexercised = sorted(agg.sets.get("uncovered_api", ()))
    if unexercised:
        print("WARNING: public API outside the operation table: %s" %
              ", ".join(unexercised))
    if stuck and not os.environ.get("VERIF_STOP_ON_VIOLATION"):
        print("WARNING: rare-condition probes never hit in this run: %s" %
              ", ".join(stuck))
    print("%s: %d runs, %d checked operations, %d violation(s) "
          "(%d known), %.1fs" % (
              prop, agg.runs, agg.counters.get("ops", 0),
              agg.n_violations, agg.n_violations - agg.n_unknown, wall))
    return status


def write_evidence(prop, wl, tier, seed, agg, wall, n_unknown, workers,
                   replay_paths, n_jobs):
    c = agg.counters
    faults = {k[len("fault."):]: v for k, v in sorted(c.items())
              if k.startswith("fault.")}
    switches = {k[len("switch."):]: v for k, v in sorted(c.items())
                if k.startswith("switch.")}
    probes = {k[len("probe."):]: v for k, v in sorted(c.items())
              if k.startswith("probe.")}
    per_op = {k[len("op."):]: v for k, v in sorted(c.items())
              if k.startswith("op.")}
    cover = {k[len("cover."):]: v for k, v in sorted(c.items())
             if k.startswith("cover.")}
    other = {k: v for k, v in sorted(c.items())
             if not k.startswith(("fault.", "switch.", "probe.", "op.",
                                  "cover."))}
    evaluations = int(c.get("ops", 0))
    coverage = {
        "evaluations": max(1, evaluations),
        "distinct_nontrivial": len(agg.sets.get("sigs", ())),
        "rule": wl.RULE,
        "samples": agg.samples or [{"note": "no sample kept"}],
        "runs": agg.runs,
        "jobs_planned": n_jobs,
        "seed_base": seed,
        "runs_per_hour": int(agg.runs / max(wall, 1e-6) * 3600),
        "ops_per_hour": int(evaluations / max(wall, 1e-6) * 3600),
        "workers": workers,
        "fault_counts_fired": faults,
        "switch_paths_fired": switches,
        "probes": probes,
        "probes_stuck_at_zero": sorted(
            p for p in getattr(wl, "EXPECTED_PROBES", [])
            if not c.get("probe." + p)),
        "per_operation_counts": per_op,
        "input_grammar_coverage": cover,
        "counters": other,
        "distinct_abstract_states": len(agg.sets.get("states", ())),
        "components_real": [
            "metomi.isodatetime (whole package, from the working tree)",
            "argparse", "re", "functools.lru_cache", "os.environ"],
        "components_stub": [
            "time module as seen by metomi.isodatetime.timezone, and "
            "time.time (SimClock/TimeFacade)",
            "sys.stdin/stdout/stderr (in-memory)",
            "CLI process boundary (in-process main(argv))",
            "fresh process (fork of the pristine post-import orchestrator)"],
        "replays": replay_paths,
    }
    for key in ("simulated_time_covered_s",):
        if key in c:
            coverage[key] = c[key]
    extra = getattr(wl, "extra_coverage", None)
    if extra:
        coverage.update(extra(agg))
    for key, val in getattr(wl, "_cross", {}).items():
        coverage[key] = val
    coverage["determinism_spot_check"] = getattr(wl, "_spot", {})
    kernel.write_evidence(prop, tier, seed, coverage, wall, n_unknown,
                          wl.ASSUMPTIONS)


def run_replay(path):
    with open(path) as inp:
        doc = json.load(inp)
    prop = doc["property"]
    wl = load_workload(prop)
    kernel.import_library()
    key = tuple(doc["key"])
    vs = [v for v in wl.check_trace(doc["trace"])
          if kernel.violation_key(v) == key]
    if vs:
        print("violation: %s" % json.dumps(vs[0], default=str)[:1500])
        same = all(vs[0].get(k) == doc["violation"].get(k)
                   for k in ("class", "opkind", "got", "want",
                             "want_fresh_process"))
        print("reproduced%s" % ("" if same else " (details differ)"))
        print("VIOLATION property=%s replay=%s" % (prop, path))
        return 1
    print("replay %s: violation did not reproduce" % path)
    return 0


def main(argv):
    if not argv:
        print(__doc__)
        return 2
    cmd = argv[0]
    try:
        if cmd in WORKLOADS:
            tier = os.environ.get("VERIF_TIER", "quick")
            if "--tier" in argv:
                tier = argv[argv.index("--tier") + 1]
            if tier not in ("quick", "thorough"):
                tier = "quick"
            return run_check(cmd, tier)
        if cmd == "replay":
            return run_replay(argv[1])
        if cmd == "_lazy":
            return kernel.lazy_main(load_workload(argv[1]), argv[2])
        if cmd == "_host":
            return kernel.host_main(load_workload(argv[1]), argv[2])
        if cmd == "_solo":
            kernel.import_library()
            return load_workload("C15").solo_main(argv[1], int(argv[2]))
        if cmd == "_digests":
            from isosim import selftest
            return selftest.print_digests(argv[1], int(argv[2]),
                                          int(argv[3]))
        if cmd == "selftest-determinism":
            from isosim import selftest
            return selftest.determinism(argv[1:] or sorted(WORKLOADS))
        if cmd == "selftest-mutants":
            from isosim import selftest
            return selftest.mutants(argv[1:])
    except kernel.HarnessError as exc:
        print("HARNESS-ERROR: %s" % exc)
        return 2
    print(__doc__)
    return 2


if __name__ == "__main__":
    sys.exit(main(sys.argv[1:]))
