"""C16 -- time points, durations, zones and recurrences are immutable values.

Seeded histories of public operations over a shared pool of values (1-3
clients interleaved on one pool); after every step the deep slot snapshot of
EVERY earlier value (operand or not) is recomputed and compared, str()/hash()
are re-checked for the operands and a sample each step and for everything at
the end.  Operations that raise part-way are the fault kind: they too must
leave every value untouched.
"""
import hashlib

from . import kernel, model, world

PROP = "C16"

# name -> (text, parser, year estimate, safe for truncated addition)
TP_SEEDS = [
    ("2000-01-01T00:00:00Z", "std", 2000, True),
    ("2000-02-29T12:30:15+05:30", "std", 2000, True),
    ("1999-12-31T23:59:59-03:30", "std", 1999, True),
    ("2004-366T24:00:00Z", "std", 2004, False),
    ("2000-12-31T24:00:00+01:00", "std", 2000, False),
    ("2001-W01-1T00:00:00Z", "std", 2001, True),
    ("2020-W53-7T12:00:00+01:00", "std", 2020, True),
    ("1900-059T06Z", "std", 1900, True),
    ("2000-01-01T12,5Z", "std", 2000, False),
    ("2000-01-01T12:30,5+01", "std", 2000, False),
    ("2000-01-01T12:30:15,25Z", "std", 2000, False),
    ("20000101T000000Z", "std", 2000, True),
    ("+012345-06-15T00:00:00Z", "std", 12345, False),
    ("-000001-12-31T00:00:00Z", "std", -1, False),
    ("0000-01-01T00:00:00Z", "std", 0, False),
    ("9999-12-31T23:59:59Z", "std", 9999, False),
    ("2000-01-01T00:00:00-00:30", "std", 2000, True),
    ("2000-01-01T00:00:00+99:59", "std", 2000, True),
    ("2000-03-31", "std", 2000, True),
    ("2000-03-31T06:00:00+13:45", "asparsed", 2000, True),
    ("2019-W52-7T23:59:59-11", "asparsed", 2019, True),
    ("2000-060", "asparsed", 2000, True),
    ("1970-01-01T00:00:00Z", "std", 1970, True),
    ("2038-01-19T03:14:07Z", "std", 2038, True),
    ("2000-01-31T00:00:00Z", "unknown_tz", 2000, True),
    # parser options a generic driver might leave at their defaults
    ("20000131T120000Z", "basic_only", 2000, True),
    ("2000-01-31T12:00:00+01:00", "with_format", 2000, True),
    ("+0012345-01-31T12:00:00Z", "digits3", 12345, False),
]
TRUNC_SEEDS = ["T06", "T-30", "T--15", "---15", "-W-3", "-045", "--03",
               "T18:45", "-W10-2", "--0315", "T06Z", "T12:30+05:30", "-00",
               "-9-W10", "T-30:15"]
TP_CTORS = [
    {"year": 2000, "month_of_year": 2, "day_of_month": 29,
     "dump_format": "CCYY-DDDThh:mm"},
    {"year": 2010, "day_of_year": 365, "hour_of_day": 23,
     "minute_of_hour": 59, "second_of_minute": 59, "time_zone_hour": -5},
    {"year": 2015, "week_of_year": 53, "day_of_week": 4,
     "hour_of_day": 12, "hour_of_day_decimal": 0.25},
    {"year": -5, "num_expanded_year_digits": 2, "month_of_year": 3,
     "day_of_month": 1},
    {"year": 2000, "hour_of_day": 24},
    {"year": 1, "time_zone_hour": 0, "time_zone_minute": -45},
    # a year before 0000 without expanded digits: its default str() raises
    {"year": -1, "month_of_year": 12, "day_of_month": 31},
    {"year": 12345, "day_of_year": 1},
    # three expanded digits: str() registers a new dumper in the process-wide
    # TIMEPOINT_DUMPER_MAP
    {"year": 1234567, "num_expanded_year_digits": 3, "month_of_year": 6,
     "day_of_month": 30, "hour_of_day": 12},
    # a stored custom format that cannot hold the year: str() raises (and
    # must leave the value alone); the last one gets there by arithmetic
    {"year": 12345, "month_of_year": 1, "day_of_month": 1,
     "dump_format": "CCYYMMDDThhmmZ"},
    {"year": -5, "month_of_year": 1, "day_of_month": 1,
     "dump_format": "CCYY-MM-DD"},
    {"year": 9999, "month_of_year": 12, "day_of_month": 31,
     "hour_of_day": 23, "dump_format": "CCYY-MM-DDThh"},
]
# truncated points built directly: their zone is *unknown* (the parsers give
# truncated points the local zone unless told to default to unknown)
TRUNC_CTORS = [
    {"truncated": True, "hour_of_day": 6, "minute_of_hour": 30},
    {"truncated": True, "hour_of_day": 6},
    {"truncated": True, "day_of_month": 15},
    {"truncated": True, "minute_of_hour": 30},
    {"truncated": True, "hour_of_day": 12, "time_zone_hour": 5},
    {"truncated": True, "day_of_week": 3},
    {"truncated": True, "truncated_property": "year_of_decade", "year": 7,
     "month_of_year": 3},
    {"truncated": True, "hour_of_day": 18, "minute_of_hour": 45,
     "truncated_dump_format": "Thhmm"},
]
DUR_SEEDS = ["P1D", "PT1H", "P1W", "P2W", "P1M", "P1Y", "P1Y2M3DT4H5M6S",
             "PT0,5H", "PT36H", "-P1D", "-P1M", "P0Y", "PT1M30S", "P400D",
             "P10Y", "PT1.5S", "-PT90M", "P7D", "P30D", "P0001-02-03T04:05:06"]
DUR_CTORS = [
    {"days": 1, "hours": -2}, {"weeks": 1, "days": 1},
    {"seconds": 3664.4, "standardize": True}, {"weeks": 3},
    {"years": 1, "months": -1}, {"minutes": 0.5}, {}]
TZ_CTORS = [{"hours": 0, "minutes": 0}, {"hours": 5, "minutes": 30},
            {"hours": -3, "minutes": -30}, {"hours": 0, "minutes": -30},
            {"hours": 99, "minutes": 59}, {"unknown": True},
            {"hours": -11}, {"hours": 13, "minutes": 45}]
# (text, bounded)
REC_SEEDS = [
    ("R5/2000-01-01T00Z/P1D", True), ("R/2000-01-01T00Z/P1M", False),
    ("R3/P1D/2000-01-10T00Z", True), ("R/P1Y/2000-02-29T00Z", False),
    ("R4/2000-01-01T00Z/2000-01-02T12Z", True),
    ("R1/2000-01-01T00Z/P1D", True), ("R/2000-W01-1T00Z/PT36H", False),
    ("R10/2000-001T00+05:30/P1W", True), ("R2/2000-01-31T00Z/P1M", True),
    ("R/2000-01-01T00Z/2000-03-01T00Z", False),
    ("R7/2000-12-31T24:00:00Z/PT12H", True),
]

TP_NOARG = [
    "century", "day_of_month", "day_of_week", "day_of_year",
    "decade_of_century", "dump_format", "expanded_year_digits",
    "get_calendar_date", "get_hour_minute_second", "get_is_calendar_date",
    "get_is_ordinal_date", "get_is_week_date",
    "get_largest_truncated_property_name", "get_ordinal_date", "get_props",
    "get_second_of_day", "get_smallest_missing_property_name",
    "get_time_zone_utc", "get_truncated_properties", "get_week_date",
    "hour_of_day", "hour_of_day_decimal_string", "minute_of_hour",
    "minute_of_hour_decimal_string", "month_of_year",
    "num_expanded_year_digits", "second_of_minute",
    "second_of_minute_decimal_string", "seconds_since_unix_epoch",
    "time_zone", "time_zone_hour_abs", "time_zone_minute_abs",
    "time_zone_sign", "to_calendar_date", "to_hour_minute_second",
    "to_local_time_zone", "to_ordinal_date", "to_utc", "to_week_date",
    "truncated", "truncated_dump_format", "truncated_property",
    "week_of_year", "year", "year_of_century", "year_of_decade", "year_sign"]
TP_ARG = ["add_months", "add_truncated", "get", "get_time_zone_offset",
          "strftime", "to_time_zone"]
DUR_NOARG = ["days", "get_days_and_seconds", "get_is_in_weeks",
             "get_seconds", "hours", "is_exact", "minutes", "months",
             "seconds", "to_days", "to_weeks", "weeks", "years"]
TZ_NOARG = DUR_NOARG + ["unknown"]
REC_NOARG = ["duration", "end_point", "format_number", "max_point",
             "min_point", "repetitions", "start_point"]
REC_ARG = ["get_first_after", "get_is_valid", "get_next", "get_prev"]
# results of these no-argument attributes are library values joining the pool
VALUE_ATTRS = {
    "tp": {"time_zone": "tz", "to_calendar_date": "tp",
           "to_hour_minute_second": "tp", "to_local_time_zone": "tp",
           "to_ordinal_date": "tp", "to_utc": "tp", "to_week_date": "tp"},
    "dur": {"to_days": "dur", "to_weeks": "dur"},
    "tz": {"to_days": "dur"},
    "rec": {"duration": "dur", "end_point": "tp", "max_point": "tp",
            "min_point": "tp", "start_point": "tp"}}
STRF = ["%Y-%m-%dT%H:%M:%S%z", "%j %X", "%s", "CCYY-Www-DThh:mm:ssZ",
        "+XCCYY-DDDThh,ii+hh:mm", "%Y%m%d", "CCYY-MM-DDThh:mm:ss+05:30",
        "CCYYDDDThhmm-1100", "%a %b %d %H:%M:%S %Y", "CCYY-MM-DDThh:mm,nn"]
EXPECTED_PROBES = ["op_on_2400_operand", "op_on_aliased_result",
                   "result_is_operand", "shared_subobject", "op_raised",
                   "truncated_addition", "rec_built_from_pool_values"]

MAX_ADD_DAYS = 150000


# --------------------------------------------------------------------------
# generation (pure)

class Gen(object):
    def __init__(self, rng):
        self.rng = rng
        self.steps = []
        self.meta = {}      # name -> dict(type=..., ...)
        self.n = 0
        self.alias_hot = []
        self.shared_zones = []
        self.open_iters = []    # (step id of the iter_open, recurrence name)

    def new_id(self):
        self.n += 1
        return "s%d" % self.n

    def names(self, typ, **want):
        out = []
        for name, m in self.meta.items():
            if m["type"] != typ:
                continue
            if all(m.get(k) == v for k, v in want.items()):
                out.append(name)
        return out

    def pick(self, typ, **want):
        cands = self.names(typ, **want)
        if not cands:
            return None
        hot = [c for c in self.alias_hot if c in cands]
        if hot and self.rng.random() < 0.4:
            return self.rng.choice(hot)
        if self.rng.random() < 0.3:
            return cands[-1 - self.rng.randrange(min(4, len(cands)))]
        return self.rng.choice(cands)

    # ---- seeds
    def seed(self):
        rng = self.rng
        kind = rng.choices(["tp", "trunc", "tpctor", "dur", "durctor", "tz",
                            "rec"], [6, 2, 2, 4, 1, 2, 3])[0]
        sid = self.new_id()
        if kind == "tp":
            text, parser, year, safe = rng.choice(TP_SEEDS)
            self.steps.append({"k": "mk", "id": sid, "t": "tp", "text": text,
                               "parser": parser})
            self.meta[sid] = {"type": "tp", "year": year, "safe": safe,
                              "trunc": False, "h24": "T24" in text}
        elif kind == "trunc":
            if rng.random() < 0.4:
                self.steps.append({"k": "mk", "id": sid, "t": "tp",
                                   "kw": rng.choice(TRUNC_CTORS)})
            else:
                self.steps.append({"k": "mk", "id": sid, "t": "tp",
                                   "text": rng.choice(TRUNC_SEEDS),
                                   "parser": rng.choice(
                                       ["trunc", "trunc", "trunc_unknown"])})
            self.meta[sid] = {"type": "tp", "year": 2000, "safe": False,
                              "trunc": True}
        elif kind == "tpctor":
            kw = rng.choice(TP_CTORS)
            if rng.random() < 0.5:
                year = rng.randint(1850, 2150)
                kw = rng.choice([
                    {"year": year, "month_of_year": rng.randint(1, 12),
                     "day_of_month": rng.randint(1, 28)},
                    {"year": year, "day_of_year": rng.randint(1, 360)},
                    {"year": year, "week_of_year": rng.randint(1, 51),
                     "day_of_week": rng.randint(1, 7)}])
                kw = dict(kw, hour_of_day=rng.randint(0, 23),
                          minute_of_hour=rng.randint(0, 59),
                          second_of_minute=rng.randint(0, 59),
                          time_zone_hour=rng.randint(-12, 14))
            self.steps.append({"k": "mk", "id": sid, "t": "tp", "kw": kw})
            self.meta[sid] = {"type": "tp", "year": kw["year"], "safe": False,
                              "trunc": False,
                              "h24": kw.get("hour_of_day") == 24}
        elif kind == "dur":
            text = rng.choice(DUR_SEEDS)
            self.steps.append({"k": "mk", "id": sid, "t": "dur",
                               "text": text})
            self.meta[sid] = {"type": "dur", "mag": dur_mag(text),
                              "interval_ok": not text.startswith("-")
                              and text != "P0Y"}
        elif kind == "durctor":
            kw = rng.choice(DUR_CTORS)
            if rng.random() < 0.5:
                # values of random size, not only the fixed list
                kw = rng.choice([
                    {"days": rng.randint(-500, 500),
                     "hours": rng.randint(-50, 50),
                     "seconds": rng.choice([0, 0.5, rng.randint(-4000,
                                                                4000)])},
                    {"weeks": rng.randint(-60, 60)},
                    {"years": rng.randint(-9, 9),
                     "months": rng.randint(-30, 30),
                     "days": rng.randint(0, 40)},
                    {"minutes": rng.randint(0, 100000) / 4.0}])
            self.steps.append({"k": "mk", "id": sid, "t": "dur", "kw": kw})
            self.meta[sid] = {"type": "dur", "mag": 400}
        elif kind == "tz":
            kw = rng.choice(TZ_CTORS)
            self.steps.append({"k": "mk", "id": sid, "t": "tz", "kw": kw})
            self.meta[sid] = {"type": "tz", "unknown": bool(
                kw.get("unknown"))}
        else:
            text, bounded = rng.choice(REC_SEEDS)
            self.steps.append({"k": "mk", "id": sid, "t": "rec",
                               "text": text})
            self.meta[sid] = {"type": "rec", "bounded": bounded,
                              "probes": []}

    def op(self, name, operands, scalars=(), result=None, client=0, **rmeta):
        sid = self.new_id()
        self.steps.append({"k": "op", "id": sid, "m": name,
                           "a": list(operands), "s": list(scalars),
                           "c": client})
        if result:
            m = {"type": result}
            m.update(rmeta)
            self.meta[sid] = m
        return sid

    def local_zone_use(self, client):
        """A conversion to the (possibly just changed) local zone."""
        a = self.pick("tp", trunc=False)
        if a is None:
            return self.seed()
        return self.op("tp.to_local_time_zone", [a], result="tp",
                       client=client, **self.tp_meta(a))

    def tp_meta(self, src, dyears=0, **over):
        m = {k: v for k, v in self.meta[src].items() if k != "type"}
        m["derived"] = True
        m["year"] = m.get("year", 2000) + dyears
        m.update(over)
        return m

    # ---- one random operation
    def step(self, client):
        rng = self.rng
        typ = rng.choices(["tp", "dur", "tz", "rec"], [10, 5, 2, 5])[0]
        a = self.pick(typ)
        if a is None:
            return self.seed()
        if typ == "tp":
            self.tp_op(a, client)
        elif typ == "dur":
            self.dur_op(a, client, "dur")
        elif typ == "tz":
            self.dur_op(a, client, "tz")
        else:
            self.rec_op(a, client)

    def tp_op(self, a, client):
        rng = self.rng
        ma = self.meta[a]
        r = rng.random()
        if r < 0.3:
            attr = rng.choice(TP_NOARG)
            res = VALUE_ATTRS["tp"].get(attr)
            if res == "tp":
                sid = self.op("tp." + attr, [a], result="tp", client=client,
                              **self.tp_meta(a))
                self.alias_hot = [sid, a]
            elif res == "tz":
                sid = self.op("tp." + attr, [a], result="tz", client=client,
                              unknown=ma.get("trunc", False))
                self.alias_hot = [sid, a]
            else:
                self.op("tp." + attr, [a], client=client)
            return
        if r < 0.5:
            d = self.pick("dur")
            if d is None or ma.get("trunc"):
                return self.seed()
            md = self.meta[d]
            if md["mag"] > MAX_ADD_DAYS:
                return self.op("dur.get_seconds", [d], client=client)
            name = rng.choice(["tp.add", "tp.add", "tp.sub_dur", "tp.radd",
                               "tp.iadd", "tp.isub"])
            sid = self.op(name, [a, d], result="tp", client=client,
                          **self.tp_meta(a, safe=False,
                                         dyears=0, h24=False))
            self.meta[sid]["year"] = ma.get("year", 2000)
            self.meta[sid]["drift"] = ma.get("drift", 0) + md["mag"]
            return
        if r < 0.6:
            b = self.pick("tp", trunc=False)
            if b is None or ma.get("trunc"):
                return self.seed()
            mb = self.meta[b]
            mag = abs(ma.get("year", 2000) - mb.get("year", 2000)) * 366 + (
                ma.get("drift", 0) + mb.get("drift", 0)) + 2
            return self.op("tp.sub_tp", [a, b], result="dur", client=client,
                           mag=mag)
        if r < 0.72:
            b = self.pick("tp", trunc=ma.get("trunc", False))
            if b is None:
                return self.seed()
            return self.op("tp.cmp", [a, b], client=client)
        if r < 0.78:
            b = self.pick("tp", trunc=not ma.get("trunc", False))
            if b is None:
                return self.seed()
            # truncated vs full: comparison raises, addition is defined
            t, f = (a, b) if ma.get("trunc") else (b, a)
            # only truncated points as written (a re-zoned one may carry a
            # decimal hour, with which the addition never terminates)
            if (self.meta[f].get("safe") and rng.random() < 0.7 and
                    not self.meta[t].get("derived")):
                order = [t, f] if rng.random() < 0.5 else [f, t]
                return self.op("tp.add_tp", order, result="tp",
                               client=client,
                               **self.tp_meta(f, safe=False))
            return self.op("tp.cmp", [a, b], client=client)
        if r < 0.84:
            z = self.pick("tz")
            if self.shared_zones and rng.random() < 0.5:
                z = rng.choice(self.shared_zones)   # an object already shared
            if z is None:
                return self.seed()
            self.shared_zones.append(z)
            sid = self.op("tp.to_time_zone", [a, z], result="tp",
                          client=client, **self.tp_meta(a, safe=False))
            self.alias_hot = [sid, a, z]
            return
        if r < 0.88:
            n = rng.choice([0, 0, 1, -1, 12, -13, 25,
                            rng.randint(-600, 600)])
            if ma.get("trunc"):
                return self.op("tp.hash_str", [a], client=client)
            sid = self.op("tp.add_months", [a], [n], result="tp",
                          client=client, **self.tp_meta(a, safe=False))
            if n == 0:
                self.alias_hot = [sid, a]
            return
        if r < 0.90:
            return self.op("tp.strftime", [a], [rng.choice(STRF)],
                           client=client)
        if r < 0.91:
            b = self.pick("tp")
            return self.op("tp.get_time_zone_offset", [a, b or a],
                           result="dur", client=client, mag=5)
        if r < 0.915:
            return self.op(rng.choice(["tp.get", "tp.str_kwargs"]), [a],
                           ["year"], client=client)
        if r < 0.96 and not ma.get("trunc"):
            # values handed to the operator / dumper layer
            which = rng.choice(["shift", "diff", "format", "reparse"])
            if which == "shift":
                return self.op("tp.dto_shift", [a], [rng.choice(
                    ["P1D", "-PT1H", "P1M", "+P1W", "PT0S"])], result="tp",
                    client=client, **self.tp_meta(a, safe=False))
            if which == "diff":
                b = self.pick("tp", trunc=False) or a
                mag = abs(ma.get("year", 2000) - self.meta[b].get(
                    "year", 2000)) * 366 + 2 + ma.get("drift", 0) + (
                        self.meta[b].get("drift", 0))
                return self.op("tp.dto_diff", [a, b], result="dur",
                               client=client, mag=mag)
            if which == "format":
                # half of the time a directive only the datetime fallback of
                # DateTimeOperator knows
                fmt = rng.choice(STRF) if rng.random() < 0.5 else rng.choice(
                    ["%a %b %d %H:%M:%S %Y", "%A %d %B %Y", "%y%m%d %I%p",
                     "%c"])
                return self.op("tp.dto_format", [a], [fmt], client=client)
            return self.op("tp.reparse", [a], result="tp", client=client,
                           **self.tp_meta(a, safe=False))
        if r < 0.98 and not ma.get("trunc") and ma.get("safe"):
            kw = rng.choice([{"hour_of_day": 6}, {"minute_of_hour": 30},
                             {"day_of_month": 15}, {"day_of_week": 3},
                             {"day_of_year": 45}, {"month_of_year": 3},
                             {"week_of_year": 10},
                             {"year_of_decade": 7}, {"year_of_century": 42},
                             {"second_of_minute": 15}])
            return self.op("tp.add_truncated", [a], [kw], result="tp",
                           client=client, **self.tp_meta(a, safe=False))
        return self.op("tp.hash_str", [a], client=client)

    def dur_op(self, a, client, typ):
        rng = self.rng
        ma = self.meta[a]
        r = rng.random()
        if r < 0.3:
            attr = rng.choice(TZ_NOARG if typ == "tz" else DUR_NOARG)
            res = VALUE_ATTRS[typ].get(attr)
            if res:
                sid = self.op(typ + "." + attr, [a], result="dur",
                              client=client, mag=ma.get("mag", 5))
                self.alias_hot = [sid, a]
            else:
                self.op(typ + "." + attr, [a], client=client)
            return
        b = self.pick(rng.choice(["dur", "dur", "tz"])) or a
        mb = self.meta[b]
        mag = ma.get("mag", 5) + mb.get("mag", 5)
        # arithmetic on a TimeZone gives a TimeZone (whose hours and minutes
        # may then be of mixed sign, or minutes beyond 59): such zones are
        # used as zones later on
        rtype = "tz" if typ == "tz" else "dur"
        rmeta = {"unknown": False} if rtype == "tz" else {}
        if r < 0.5:
            if typ == "tz" and rng.random() < 0.6:
                b = self.pick("tz", unknown=False) or b
            return self.op("dur." + rng.choice(["add", "sub", "add", "sub",
                                                "iadd", "isub"]), [a, b],
                           result=rtype, client=client, mag=mag, **rmeta)
        if r < 0.62:
            n = rng.choice([0, 1, -1, 2, 3, 7, -12, rng.randint(-40, 40)])
            if typ == "tz":
                n = rng.choice([2, -1, 3, 1])
            return self.op("dur." + rng.choice(["mul", "rmul", "imul"]), [a],
                           [n],
                           result=rtype, client=client,
                           mag=ma.get("mag", 5) * max(1, abs(n)), **rmeta)
        if r < 0.68:
            return self.op("dur.floordiv", [a], [rng.choice(
                [1, 2, 7, -3, 0, rng.randint(1, 60)])],
                           result="dur", client=client, mag=ma.get("mag", 5))
        if r < 0.74:
            return self.op("dur.abs", [a], result="dur", client=client,
                           mag=ma.get("mag", 5))
        if r < 0.88:
            return self.op("dur.cmp", [a, b], client=client)
        if r < 0.92:
            t = self.pick("tp", trunc=False)
            if t is not None and ma.get("mag", 5) <= MAX_ADD_DAYS:
                return self.op("tp.radd", [t, a], result="tp", client=client,
                               **self.tp_meta(t, safe=False, h24=False))
        if r < 0.95:
            rec = self.pick("rec")
            if rec is not None and ma.get("mag", 5) <= MAX_ADD_DAYS:
                return self.op("rec.radd", [rec, a], result="rec",
                               client=client,
                               bounded=self.meta[rec]["bounded"], probes=[])
        return self.op("dur.hash_str", [a], client=client)

    def rec_op(self, a, client):
        rng = self.rng
        ma = self.meta[a]
        r = rng.random()
        if r < 0.2:
            attr = rng.choice(REC_NOARG)
            res = VALUE_ATTRS["rec"].get(attr)
            if res == "tp":
                sid = self.op("rec." + attr, [a], result="tp", client=client,
                              year=2000, safe=False, trunc=False)
                ma["probes"].append(sid)
                self.alias_hot = [sid, a]
            elif res == "dur":
                sid = self.op("rec." + attr, [a], result="dur",
                              client=client, mag=400)
                self.alias_hot = [sid, a]
            else:
                self.op("rec." + attr, [a], client=client)
            return
        if r < 0.3:
            # iterators that stay open across other operations -- several
            # over one recurrence, advanced in turn -- and the idioms that
            # have two iterations of one recurrence live at once
            r2 = rng.random()
            mine = [it for it in self.open_iters if it[1] == a]
            if r2 < 0.35 or not self.open_iters:
                sid = self.op("rec.iter_open", [a], client=client)
                self.open_iters = self.open_iters[-5:] + [(sid, a)]
                if rng.random() < 0.6:
                    sid2 = self.op("rec.iter_open", [a], client=client)
                    self.open_iters.append((sid2, a))
            elif r2 < 0.8:
                it, rec = rng.choice(mine or self.open_iters)
                self.op("rec.iter_next", [rec], [it, rng.choice([1, 2, 3])],
                        client=client)
            elif r2 < 0.9:
                self.op("rec.pairs", [a], [rng.choice([2, 3, 5])],
                        client=client)
            else:
                self.op("rec.loop_query", [a], [rng.choice([2, 3, 4])],
                        client=client)
            return
        if r < 0.4:
            k = rng.choice([1, 2, 3, 5])
            sid = self.op("rec.take", [a], [k], client=client)
            for j in range(k):
                name = "%s.%d" % (sid, j)
                self.meta[name] = {"type": "tp", "year": 2000, "safe": False,
                                   "trunc": False}
                ma["probes"].append(name)
            self.alias_hot = [sid + ".0", a]
            return
        if r < 0.48:
            sid = self.op("rec.getitem", [a], [rng.choice([0, 1, 2, 4, -1])],
                          result="tp", client=client, year=2000, safe=False,
                          trunc=False)
            ma["probes"].append(sid)
            return
        if r < 0.7 and ma["probes"]:
            p = rng.choice(ma["probes"])
            q = rng.choice(REC_ARG + ["contains"])
            if q in ("get_is_valid", "contains") and not ma["bounded"]:
                q = "get_next"
            if q == "contains":
                return self.op("rec.contains", [a, p], client=client)
            sid = self.op("rec." + q, [a, p], result=(
                None if q == "get_is_valid" else "tp"), client=client,
                year=2000, safe=False, trunc=False)
            if q != "get_is_valid":
                ma["probes"].append(sid)
            return
        if r < 0.82:
            d = self.pick("dur")
            if d is None or self.meta[d]["mag"] > MAX_ADD_DAYS:
                return self.seed()
            name = rng.choice(["rec.add", "rec.sub", "rec.radd"])
            return self.op(name, [a, d], result="rec", client=client,
                           bounded=ma["bounded"], probes=[])
        if r < 0.9:
            b = self.pick("rec") or a
            return self.op("rec.cmp", [a, b], client=client)
        if r < 0.96:
            # a recurrence built from the caller's own pool values
            s = self.pick("tp", trunc=False)
            d = self.pick("dur", interval_ok=True)
            # (an interval that is zero or of mixed sign makes the neighbour
            # queries walk for ever: only durations as written, positive)
            if s is None or d is None or self.meta[d]["mag"] > 5000:
                return self.seed()
            lo = self.pick("tp", trunc=False)
            hi = self.pick("tp", trunc=False)
            # (a recurrence between points millennia apart -- the 7-digit
            # year seeds -- walks the years one by one: seconds per query)
            for cand in (s, lo, hi):
                if cand is not None and not 1000 <= self.meta[cand].get(
                        "year", 2000) <= 3000:
                    return self.seed()
            form = rng.choice(["start_dur", "dur_end", "start_end",
                               "start_dur_minmax"])
            ops = [s, d]
            if form == "start_end":
                ops = [s, lo or s]
            elif form == "start_dur_minmax":
                ops = [s, d, lo or s, hi or s]
            return self.op("rec.make", ops, [form, rng.choice([1, 2, 3, 6])],
                           result="rec", client=client, bounded=True,
                           probes=[s])
        return self.op("rec.hash_str", [a], client=client)


def dur_mag(text):
    """Rough magnitude in days of a seed duration (for cost bounding)."""
    import re
    total = 1
    for num, unit in re.findall(r"(\d+)[,.]?\d*([YMWDH])", text.split("T")[0]
                                + "T"):
        total += int(num) * {"Y": 366, "M": 31, "W": 7, "D": 1, "H": 1}[unit]
    return total


def gen_random(rng, index):
    g = Gen(rng)
    nclients = rng.choice([1, 1, 2, 3])
    nseed = rng.randint(4, 14)
    for _ in range(nseed):
        g.seed()
    nsteps = rng.randint(20, 150)
    p_seed = rng.choice([0.02, 0.05, 0.1])
    # the process's local zone may change while values live on (a daylight
    # saving transition in a long-running process, TZ + tzset)
    p_world = rng.choice([0, 0, 0.03, 0.08])
    client = 0
    for _ in range(nsteps):
        if rng.random() < 0.5:
            client = rng.randrange(nclients)
        if rng.random() < p_world:
            g.steps.append({"k": "world", "act": rng.choice(
                [["tzset", 0], ["tzset", 1], ["tzset", 2], ["dst", 0],
                 ["dst", 1]])})
            if rng.random() < 0.7:
                g.local_zone_use(client)
        elif rng.random() < p_seed:
            g.seed()
        else:
            g.step(client)
    mode = "gregorian" if rng.random() < 0.6 else rng.choice(
        model.SPELLINGS[1:])
    zone_min = rng.choice([0, 0, 60, -210, 345, -30])
    return {"property": PROP, "kind": "random", "index": index,
            "mode": mode, "zone": [-60 * zone_min, -60 * zone_min, 0],
            "sample_salt": rng.randrange(1 << 30), "steps": g.steps,
            # the size of the library's memo tables is a tuning knob: with
            # tiny tables the eviction / refill path is the common one
            "cache_max": rng.choice([None, None, None, 0, 1, 2, 8])}


FALLBACK_FORMATS = ["%a %b %d %H:%M:%S %Y", "%A %d %B %Y", "%c"]
INPLACE = ("iadd", "isub", "imul", "ifloordiv")
EXERCISED_DUNDERS = {
    "__init__", "__new__", "__add__", "__radd__", "__sub__", "__mul__",
    "__rmul__", "__floordiv__", "__abs__", "__bool__", "__eq__", "__ne__",
    "__lt__", "__le__", "__gt__", "__ge__", "__hash__", "__str__",
    "__repr__", "__iter__", "__getitem__", "__iadd__", "__isub__",
    "__imul__", "__ifloordiv__", "__init_subclass__", "__subclasshook__",
    "__class_getitem__"}
ADD_TRUNC_KW = [{"hour_of_day": 6}, {"minute_of_hour": 30},
                {"day_of_month": 15}, {"day_of_week": 3}, {"day_of_year": 45},
                {"month_of_year": 3}, {"week_of_year": 10},
                {"year_of_decade": 7}, {"year_of_century": 42},
                {"second_of_minute": 15}]


def all_seed_steps():
    """Every seed value of every type, as 'mk' steps without ids."""
    out = []
    for text, parser, year, safe in TP_SEEDS:
        out.append(({"k": "mk", "t": "tp", "text": text, "parser": parser},
                    {"type": "tp", "trunc": False, "safe": safe,
                     "far": not 1800 <= year <= 2200}))
    for kw in TP_CTORS:
        out.append(({"k": "mk", "t": "tp", "kw": kw},
                    {"type": "tp", "trunc": False, "safe": False,
                     "far": not 1800 <= kw["year"] <= 2200}))
    for text in TRUNC_SEEDS:
        for parser in ("trunc", "trunc_unknown"):
            out.append(({"k": "mk", "t": "tp", "text": text,
                         "parser": parser}, {"type": "tp", "trunc": True}))
    for kw in TRUNC_CTORS:
        out.append(({"k": "mk", "t": "tp", "kw": kw},
                    {"type": "tp", "trunc": True}))
    for text in DUR_SEEDS:
        out.append(({"k": "mk", "t": "dur", "text": text},
                    {"type": "dur", "mag": dur_mag(text)}))
    for kw in DUR_CTORS:
        out.append(({"k": "mk", "t": "dur", "kw": kw},
                    {"type": "dur", "mag": 400}))
    for kw in TZ_CTORS:
        out.append(({"k": "mk", "t": "tz", "kw": kw}, {"type": "tz"}))
    for text, bounded in REC_SEEDS:
        out.append(({"k": "mk", "t": "rec", "text": text},
                    {"type": "rec", "bounded": bounded}))
    return out


def gen_scenario(index):
    """Hand-written multi-step situations in which two values come to share
    a sub-object through public operations alone, followed by operations
    that would write through it: points converted to one common TimeZone
    object (to_time_zone stores the caller's object), a 24:00 point among
    them, then comparisons / subtraction / sorting / recurrence queries."""
    steps = []
    n = [0]

    def add(step):
        n[0] += 1
        step = dict(step, id="d%d" % n[0])
        steps.append(step)
        return step["id"]

    def op(name, a, s=()):
        return add({"k": "op", "m": name, "a": list(a), "s": list(s), "c": 0})

    zone_txt = ["Z", "+05:30", "-11:00"][index % 3]
    ref = add({"k": "mk", "t": "tp", "parser": "std",
               "text": "2001-01-01T00:00:00" + zone_txt})
    p24 = add({"k": "mk", "t": "tp", "parser": "std",
               "text": "2000-12-31T24:00:00" + zone_txt})
    q = add({"k": "mk", "t": "tp", "parser": "std",
             "text": "2000-06-15T12:30:00" + zone_txt})
    o24 = add({"k": "mk", "t": "tp", "parser": "std",
               "text": "2000-366T24:00:00" + zone_txt})
    d1 = add({"k": "mk", "t": "dur", "text": "PT6H"})
    zr = op("tp.time_zone", [ref])          # the zone object ref carries
    shared = [op("tp.to_time_zone", [x, zr]) for x in (p24, q, o24, ref)]
    for a in shared + [ref]:
        for b in shared + [ref]:
            if a != b:
                op("tp.cmp", [a, b])
                op("tp.sub_tp", [a, b])
    rec = op("rec.make", [shared[0], d1], ["start_dur", 4])
    op("rec.take", [rec], [4])
    for probe in shared + [ref]:
        op("rec.get_is_valid", [rec, probe])
        op("rec.get_first_after", [rec, probe])
        op("rec.contains", [rec, probe])
    rec2 = op("rec.make", [ref, d1, shared[0], shared[1]],
              ["start_dur_minmax", 3])
    op("rec.take", [rec2], [3])
    # a second generation: zones handed on from results to further points
    z2 = op("tp.time_zone", [shared[0]])
    more = [op("tp.to_time_zone", [x, z2]) for x in (p24, o24)]
    for a in more:
        for b in shared:
            op("tp.cmp", [a, b])
            op("tp.cmp", [b, a])
    for x in shared + more + [ref, p24, o24]:
        op("tp.hash_str", [x])
    return {"property": PROP, "kind": "scenario", "index": index,
            "mode": model.SPELLINGS[index % len(model.SPELLINGS)],
            "zone": [0, 0, 0], "sample_salt": index, "steps": steps,
            "cache_max": [None, 1, 2][index % 3]}


def gen_directed(rng, index):
    """Directed family: ONE seed value X per trace, a fixed set of companion
    values, and every operation of the table applied with X in every operand
    position -- so that each (operation, operand shape) pair is exercised in
    every check, not only when the random walk happens to reach it."""
    seeds = all_seed_steps()
    mk, meta = seeds[index % len(seeds)]
    steps = []
    n = [0]

    def add(step):
        n[0] += 1
        step = dict(step, id="d%d" % n[0])
        steps.append(step)
        return step["id"]

    def op(name, a, s=()):
        return add({"k": "op", "m": name, "a": list(a), "s": list(s), "c": 0})

    x = add(mk)
    d1 = add({"k": "mk", "t": "dur", "text": "P1D"})
    dm = add({"k": "mk", "t": "dur", "text": "P1M"})
    d0 = add({"k": "mk", "t": "dur", "text": "PT0S"})
    dw = add({"k": "mk", "t": "dur", "text": "P1W"})
    dh = add({"k": "mk", "t": "dur", "text": "-PT36H"})
    z1 = add({"k": "mk", "t": "tz", "kw": {"hours": 5, "minutes": 30}})
    z0 = add({"k": "mk", "t": "tz", "kw": {"hours": 0, "minutes": 0}})
    zu = add({"k": "mk", "t": "tz", "kw": {"unknown": True}})
    p1 = add({"k": "mk", "t": "tp", "text": "2000-01-01T00:00:00Z",
              "parser": "std"})
    p2 = add({"k": "mk", "t": "tp", "text": "2001-W01-1T12:00:00+01:00",
              "parser": "std"})
    tr = add({"k": "mk", "t": "tp", "kw": {"truncated": True,
                                           "day_of_month": 15}})
    tt = add({"k": "mk", "t": "tp", "kw": {"truncated": True,
                                           "hour_of_day": 6,
                                           "minute_of_hour": 30}})
    r1 = add({"k": "mk", "t": "rec", "text": "R5/2000-01-01T00Z/P1D"})
    typ = meta["type"]
    if typ == "tp" and not meta["trunc"]:
        for attr in TP_NOARG:
            op("tp." + attr, [x])
        # the local zone moves while the results above live on
        steps.append({"k": "world", "act": ["tzset", 1]})
        op("tp.to_local_time_zone", [p1])
        op("tp.to_local_time_zone", [x])
        steps.append({"k": "world", "act": ["dst", 1]})
        op("tp.to_local_time_zone", [p2])
        steps.append({"k": "world", "act": ["tzset", 0]})
        steps.append({"k": "world", "act": ["dst", 0]})
        op("tp.to_local_time_zone", [x])
        for d in (d1, dm, d0, dw, dh):
            op("tp.add", [x, d])
            op("tp.radd", [x, d])
            op("tp.sub_dur", [x, d])
            op("tp.iadd", [x, d])
            op("tp.isub", [x, d])
            op("tp.hash_str", [x])
        if not meta.get("far"):
            op("tp.sub_tp", [x, p1])
            op("tp.sub_tp", [p2, x])
            op("tp.dto_diff", [x, p2])
        for o in (p1, p2, x):
            op("tp.cmp", [x, o])
            op("tp.cmp", [o, x])
        op("tp.cmp", [x, tr])
        for z in (z1, z0, zu):
            op("tp.to_time_zone", [x, z])
        zx = op("tp.time_zone", [x])
        op("tp.to_time_zone", [p1, zx])
        for nmon in (0, 1, -13):
            op("tp.add_months", [x], [nmon])
        for fmt in STRF:
            op("tp.strftime", [x], [fmt])
        for fmt in STRF[:3] + FALLBACK_FORMATS:
            op("tp.dto_format", [x], [fmt])
        for off in ("P1D", "-PT1H", "P1M", "PT0S"):
            op("tp.dto_shift", [x], [off])
        op("tp.reparse", [x])
        op("tp.get_time_zone_offset", [x, p2])
        op("tp.get_time_zone_offset", [p2, x])
        op("tp.get", [x], ["year"])
        op("tp.str_kwargs", [x])
        if meta.get("safe"):
            for kw in ADD_TRUNC_KW:
                op("tp.add_truncated", [x], [kw])
            for t in (tr, tt):
                op("tp.add_tp", [x, t])
                op("tp.add_tp", [t, x])
        for form in ("start_dur", "dur_end", "start_dur_minmax"):
            op("rec.make", [x, d1, x, p2] if form == "start_dur_minmax"
               else [x, d1], [form, 3])
        made = op("rec.make", [x, d1], ["start_dur", 3])
        op("rec.take", [made], [3])
        op("rec.get_is_valid", [made, x])
        op("rec.get_next", [made, x])
        op("rec.get_first_after", [made, x])
        op("rec.get_is_valid", [r1, x])
        op("tp.hash_str", [x])
    elif typ == "tp":
        for attr in TP_NOARG:
            op("tp." + attr, [x])
        for o in (tr, tt, x):
            op("tp.cmp", [x, o])
            op("tp.cmp", [o, x])
        op("tp.cmp", [x, p1])
        for z in (z1, z0, zu):
            op("tp.to_time_zone", [x, z])
        for fmt in STRF[:4]:
            op("tp.strftime", [x], [fmt])
        op("tp.str_kwargs", [x])
        op("tp.add_tp", [x, p1])
        op("tp.add_tp", [p1, x])
        # truncated + full with a fractional second does not come back on
        # the pinned tree (C20 territory): tried in a throw-away fork of
        # this process, which also inspects every value afterwards -- so a
        # version of the library that does return is still watched there
        pfrac = add({"k": "mk", "t": "tp", "parser": "std",
                     "text": "2000-01-01T05:06:12,5Z"})
        steps.append({"k": "op", "id": "f1", "m": "tp.add_tp",
                      "a": [x, pfrac], "s": [], "c": 0, "fork": True})
        steps.append({"k": "op", "id": "f2", "m": "tp.add_tp",
                      "a": [pfrac, x], "s": [], "c": 0, "fork": True})
        op("tp.hash_str", [x])
    elif typ in ("dur", "tz"):
        for attr in (TZ_NOARG if typ == "tz" else DUR_NOARG):
            op(typ + "." + attr, [x])
        for d in (d1, dm, d0, dw, dh, z1, x):
            op("dur.add", [x, d])
            op("dur.add", [d, x])
            op("dur.sub", [x, d])
            op("dur.sub", [d, x])
            op("dur.iadd", [x, d])
            op("dur.iadd", [d, x])
            op("dur.isub", [x, d])
            op("dur.cmp", [x, d])
            op("dur.cmp", [d, x])
            op("dur.hash_str", [x])
        for k in (0, 1, -1, 3):
            op("dur.mul", [x], [k])
            op("dur.rmul", [x], [k])
            op("dur.imul", [x], [k])
        for k in (1, 2, -3, 0):
            op("dur.floordiv", [x], [k])
        op("dur.abs", [x])
        if meta.get("mag", 5) <= MAX_ADD_DAYS:
            op("tp.add", [p1, x])
            op("tp.radd", [p2, x])
            op("tp.sub_dur", [p1, x])
            op("rec.add", [r1, x])
            op("rec.radd", [r1, x])
            op("rec.sub", [r1, x])
        if typ == "tz":
            op("tp.to_time_zone", [p1, x])
            op("tp.to_time_zone", [p2, x])
            op("tp.to_time_zone", [tt, x])
            # zones that come out of TimeZone arithmetic (mixed signs,
            # minutes beyond 59) used as zones
            zh = add({"k": "mk", "t": "tz", "kw": {"hours": 0,
                                                   "minutes": 30}})
            for zz in (op("dur.sub", [x, zh]), op("dur.add", [x, zh]),
                       op("dur.mul", [x], [2])):
                op("tp.to_time_zone", [p1, zz])
                op("tp.to_time_zone", [p2, zz])
                op("dur.hash_str", [zz])
        elif meta.get("mag", 5) <= 5000 and not mk.get("kw") and (
                not mk.get("text", "-").startswith("-")) and (
                mk.get("text") != "P0Y"):
            made = op("rec.make", [p1, x], ["start_dur", 3])
            op("rec.take", [made], [3])
            op("rec.get_first_after", [made, p1])
        op("dur.hash_str", [x])
    else:
        # two iterations of the fresh value live at once, before anything
        # else has walked it
        i1 = op("rec.iter_open", [x])
        i2 = op("rec.iter_open", [x])
        op("rec.iter_next", [x], [i1, 2])
        op("rec.iter_next", [x], [i2, 3])
        op("rec.iter_next", [x], [i1, 2])
        op("rec.pairs", [x], [3])
        op("rec.loop_query", [x], [3])
        op("rec.iter_next", [x], [i2, 1])
        for attr in REC_NOARG:
            op("rec." + attr, [x])
        taken = op("rec.take", [x], [3])
        op("rec.getitem", [x], [0])
        op("rec.getitem", [x], [2])
        op("rec.getitem", [x], [-1])
        for probe in (taken + ".0", taken + ".1"):
            for q in REC_ARG + ["contains"]:
                if q in ("get_is_valid", "contains") and not meta["bounded"]:
                    continue
                op("rec." + q, [x, probe])
        for d in (d1, d0, dw, dh):
            op("rec.add", [x, d])
            op("rec.radd", [x, d])
            op("rec.sub", [x, d])
            op("rec.iadd", [x, d])
            op("rec.isub", [x, d])
        op("rec.cmp", [x, r1])
        op("rec.cmp", [x, x])
        op("rec.take", [x], [2])
        op("rec.hash_str", [x])
    return {"property": PROP, "kind": "directed", "index": index,
            "mode": model.SPELLINGS[(index // len(seeds)) % len(
                model.SPELLINGS)],
            "zone": [0, 0, 0] if (index // len(seeds)) % 2 == 0 else
            [-19800, -19800, 0],
            "sample_salt": index, "steps": steps,
            "cache_max": [None, None, 1, 8][index % 4]}


# --------------------------------------------------------------------------
# execution

# other configurations of the process's local zone (timezone, altzone,
# daylight) a run can move to
ALT_ZONES = [[-19800, -19800, 0], [28800, 25200, 1]]


def lib_classes():
    from metomi.isodatetime import data
    return (data.TimePoint, data.Duration, data.TimeZone,
            data.TimeRecurrence)


# The slots that carry a value's state on the pinned tree: each is set from a
# constructor argument and is what the public getters report.  A slot that a
# later change adds (a memo of the hash, say) is not state by itself: a change
# in it is judged through the value's complete public view instead, so that a
# correct lazily filled memo raises no alarm and a stale one still does.
STATE_SLOTS = {
    "TimeRecurrence": ["_repetitions", "_start_point", "_duration",
                       "_end_point", "_second_point", "_format_number",
                       "_min_point", "_max_point"],
    "Duration": ["_years", "_months", "_weeks", "_days", "_hours",
                 "_minutes", "_seconds"],
    "TimeZone": ["_years", "_months", "_weeks", "_days", "_hours",
                 "_minutes", "_seconds", "_unknown"],
    "TimePoint": ["_num_expanded_year_digits", "_year", "_month_of_year",
                  "_day_of_year", "_day_of_month", "_day_of_week",
                  "_week_of_year", "_hour_of_day", "_minute_of_hour",
                  "_second_of_minute", "_truncated", "_truncated_property",
                  "_truncated_dump_format", "_dump_format", "_time_zone"]}


def snap(obj, depth=0, extras=None, path=""):
    """Deep snapshot of the state behind a value: every state slot of every
    class in its MRO, recursively through linked library values.  Slots the
    pinned classes do not have go to `extras` (when given) instead."""
    if obj is None or isinstance(obj, (bool, int, str)):
        return obj
    if isinstance(obj, float):
        return repr(obj)
    if isinstance(obj, (list, tuple)):
        return [snap(x, depth + 1, extras, "%s[%d]" % (path, i))
                for i, x in enumerate(obj)]
    if isinstance(obj, dict):
        items = []
        for i, (k, v) in enumerate(obj.items()):
            try:
                ktxt = str(k)
            except Exception as exc:      # a key that cannot be printed
                ktxt = "<%s:%s>" % (type(k).__name__, type(exc).__name__)
            items.append((ktxt, i, snap(v, depth + 1, extras,
                                        "%s[%s]" % (path, ktxt))))
        items.sort(key=lambda it: (it[0], it[1]))
        return [[ktxt, val] for ktxt, _, val in items]
    cls = type(obj)
    if cls.__module__.startswith("metomi.isodatetime") and depth < 6:
        out = [cls.__name__]
        state = STATE_SLOTS.get(cls.__name__)
        seen = set()
        for klass in cls.__mro__:
            for slot in klass.__dict__.get("__slots__", ()):
                if slot in ("__dict__", "__weakref__") or slot in seen:
                    continue
                seen.add(slot)
                try:
                    val = getattr(obj, slot)
                except AttributeError:
                    val = "<unset>"
                where = "%s.%s" % (path, slot)
                if state is None or slot in state:
                    out.append([slot, snap(val, depth + 1, extras, where)])
                elif extras is not None:
                    extras.append([where, snap(val, depth + 1, None, where)])
        if hasattr(obj, "__dict__"):
            for key, val in sorted(vars(obj).items()):
                where = "%s.%s" % (path, key)
                if state is None or key in state:
                    out.append([key, snap(val, depth + 1, extras, where)])
                elif extras is not None:
                    extras.append([where, snap(val, depth + 1, None, where)])
        return out
    return repr(obj)


def public_view(obj):
    """Everything the public no-argument interface reports about a value:
    every property and getter, str(), repr() and hash stability."""
    from metomi.isodatetime import data
    if isinstance(obj, data.TimePoint):
        names = [n for n in TP_NOARG if n not in VALUE_ATTRS["tp"]]
        names.append("time_zone")
    elif isinstance(obj, data.TimeZone):
        names = [n for n in TZ_NOARG if n not in VALUE_ATTRS["tz"]]
    elif isinstance(obj, data.Duration):
        names = [n for n in DUR_NOARG if n not in VALUE_ATTRS["dur"]]
    elif isinstance(obj, data.TimeRecurrence):
        names = list(REC_NOARG)
    else:
        return None
    view = []
    try:
        with kernel.guarded():
            for name in names:
                try:
                    val = getattr(obj, name)
                    if callable(val):
                        val = val()
                    view.append([name, canon_plain(val)])
                except kernel.Hang:
                    raise
                except Exception as exc:
                    view.append([name, "EXC:" + type(exc).__name__])
            view.append(["str", str(obj)])
            view.append(["repr", repr(obj)])
            view.append(["hash_stable", hash(obj) == hash(obj)])
    except kernel.Hang:
        view.append(["HANG"])
    except Exception as exc:
        view.append(["EXC", type(exc).__name__])
    return view


def observe(obj):
    """str() and hash() as the outside world sees them."""
    try:
        s = str(obj)
    except Exception as exc:
        s = "!str:%s:%s" % (type(exc).__name__, exc)
    try:
        h = hash(obj)
    except Exception as exc:
        h = "!hash:%s" % type(exc).__name__
    return [s, h]


def sub_objects(obj, acc=None, depth=0):
    """ids of library objects reachable from obj (for aliasing edges)."""
    if acc is None:
        acc = {}
    cls = type(obj)
    if cls.__module__.startswith("metomi.isodatetime") and depth < 5:
        acc[id(obj)] = obj
        for klass in cls.__mro__:
            for slot in klass.__dict__.get("__slots__", ()):
                val = getattr(obj, slot, None)
                if val is not None and not isinstance(
                        val, (bool, int, float, str)):
                    sub_objects(val, acc, depth + 1)
    return acc


def shape_of(obj):
    """A coarse operand shape, for the (operation x shape) coverage count."""
    from metomi.isodatetime import data
    if isinstance(obj, data.TimePoint):
        tags = []
        if obj.truncated:
            tags.append("trunc")
        else:
            tags.append("cal" if obj.get_is_calendar_date() else (
                "ord" if obj.get_is_ordinal_date() else "week"))
        if obj.hour_of_day == 24:
            tags.append("h24")
        hod = obj.hour_of_day
        if hod is not None and (int(hod) != hod or getattr(
                obj, "_minute_of_hour", 0) is None):
            tags.append("dec")
        if obj.num_expanded_year_digits:
            tags.append("x")
        if obj.time_zone.unknown:
            tags.append("utz")
        elif obj.time_zone.hours or obj.time_zone.minutes:
            tags.append("z")
        if obj.dump_format:
            tags.append("fmt")
        return "tp:" + ",".join(tags)
    if isinstance(obj, data.TimeZone):
        return "tz:" + ("unknown" if obj.unknown else "known")
    if isinstance(obj, data.Duration):
        return "dur:" + ("weeks" if obj.get_is_in_weeks() else (
            "exact" if obj.is_exact() else "nominal"))
    if isinstance(obj, data.TimeRecurrence):
        return "rec:f%s%s" % (obj.format_number, "" if obj.repetitions
                              else "u")
    return "other"


def canon_plain(x):
    classes = lib_classes()
    if x is None or isinstance(x, (bool, int, str)):
        return x
    if isinstance(x, float):
        return repr(x)
    if isinstance(x, classes):
        return observe(x)[0]
    if isinstance(x, (list, tuple)):
        return [canon_plain(i) for i in x]
    if isinstance(x, dict):
        return {str(k): canon_plain(v) for k, v in sorted(x.items())}
    return "%s" % type(x).__name__


class Sim(object):
    def __init__(self, trace):
        self.trace = trace
        self.pool = {}          # name -> value
        self.order = []
        self.snaps = {}
        self.extras = {}
        self.views = {}
        self.obs = {}
        self.aliased = set()
        self.violations = []
        self.counters = {}
        self.results = []
        self.sig = []
        self.uncovered = []
        self.pairs = set()
        self.asked = []         # questions already answered in this epoch
        self.world_epoch = 0
        self.iters = {}         # iterators left open across steps
        self.cur_step_id = None
        self.made = {}          # name -> (mk step, epoch): values with twins

    def count(self, key, n=1):
        self.counters[key] = self.counters.get(key, 0) + n

    def violate(self, cls, opkind, step_no, **extra):
        v = {"class": cls, "opkind": opkind, "step": step_no}
        v.update(extra)
        self.violations.append(v)

    def admit(self, name, value, operands):
        """A library value joins the pool: snapshot it, record aliasing."""
        if name in self.pool:
            return
        self.pool[name] = value
        self.order.append(name)
        self.snaps[name] = snap(value)
        self.obs[name] = observe(value)
        self.views[name] = public_view(value)
        extras = []
        after = snap(value, extras=extras)
        self.extras[name] = extras
        if after != self.snaps[name]:
            # str() / hash() of the new value changed it: they are public
            # operations too
            self.violate("mutated", "str_hash", len(self.results),
                         victim=name, victim_is_operand=True,
                         before=self.snaps[name], after=after)
            self.snaps[name] = after
        mine = sub_objects(value)
        for oname in operands:
            other = self.pool.get(oname)
            if other is None:
                continue
            if other is value:
                self.count("probe.result_is_operand")
                self.aliased.update([name, oname])
            elif set(mine) & set(sub_objects(other)):
                self.count("probe.shared_subobject")
                self.aliased.update([name, oname])

    def make(self, step):
        from metomi.isodatetime import data
        t = step["t"]
        if "text" in step:
            if t == "tp":
                parser = self.parsers[step["parser"]]
                return parser.parse(
                    step["text"],
                    dump_as_parsed=step["parser"] == "asparsed")
            if t == "dur":
                return self.dparser.parse(step["text"])
            return self.rparser.parse(step["text"])
        kw = step["kw"]
        if t == "tp":
            return data.TimePoint(**kw)
        if t == "dur":
            return data.Duration(**kw)
        return data.TimeZone(**kw)

    def apply(self, name, ops, sc):
        """Run one public operation; returns its raw result."""
        from metomi.isodatetime import data
        kind, _, meth = name.partition(".")
        a = ops[0]
        if meth in INPLACE:
            # augmented assignment: `a += b` hands back a new value (or,
            # wrongly, the operand changed in place)
            import operator
            return getattr(operator, meth)(a, ops[1] if len(ops) > 1
                                           else sc[0])
        if meth == "str_kwargs":
            # the optional keywords of TimePoint.__str__
            return [a.__str__(override_custom_dump_format=True),
                    a.__str__(strftime_format="%Y-%m-%dT%H:%M:%S"),
                    a.__str__(override_custom_dump_format=False)]
        if meth in ("hash_str",):
            # the hash value itself stays out of the event log: for values
            # carrying strings it depends on PYTHONHASHSEED
            return [str(a), hash(a) == hash(a), repr(a)]
        if kind == "tp":
            if meth == "add":
                return a + ops[1]
            if meth == "radd":
                return ops[1] + a
            if meth == "sub_dur":
                return a - ops[1]
            if meth == "sub_tp":
                return a - ops[1]
            if meth == "add_tp":
                return a + ops[1]
            if meth == "cmp":
                b = ops[1]
                out = []
                for fn in (lambda: a == b, lambda: a != b, lambda: a < b,
                           lambda: a <= b, lambda: a > b, lambda: a >= b,
                           lambda: hash(a) == hash(b),
                           lambda: len({a, b}),
                           lambda: [str(x) for x in sorted([a, b])]):
                    try:
                        out.append(fn())
                    except Exception as exc:
                        out.append("EXC:" + type(exc).__name__)
                        self.count("probe.op_raised")
                return out
            if meth == "to_time_zone":
                return a.to_time_zone(ops[1])
            if meth == "add_months":
                return a.add_months(sc[0])
            if meth == "strftime":
                if "%" in sc[0]:
                    return a.strftime(sc[0])
                from metomi.isodatetime import dumpers
                return dumpers.TimePointDumper().dump(a, sc[0])
            if meth == "get_time_zone_offset":
                return a.get_time_zone_offset(ops[1])
            if meth == "get":
                return a.get(sc[0])
            if meth == "add_truncated":
                return a.add_truncated(**sc[0])
            if meth == "dto_shift":
                return self.dto.date_shift(a, sc[0])
            if meth == "dto_diff":
                return self.dto.date_diff(a, ops[1])[0]
            if meth == "dto_format":
                return self.dto.date_format(sc[0], a)
            if meth == "reparse":
                return self.parsers["std"].parse(str(a))
            val = getattr(a, meth)
            return val() if callable(val) else val
        if kind in ("dur", "tz"):
            if meth == "add":
                return a + ops[1]
            if meth == "sub":
                return a - ops[1]
            if meth == "mul":
                return a * sc[0]
            if meth == "rmul":
                return sc[0] * a
            if meth == "floordiv":
                return a // sc[0]
            if meth == "abs":
                return abs(a)
            if meth == "cmp":
                b = ops[1]
                out = []
                for fn in (lambda: a == b, lambda: a != b, lambda: a < b,
                           lambda: a <= b, lambda: a > b, lambda: a >= b,
                           lambda: hash(a) == hash(b), lambda: bool(a),
                           lambda: len({a, b})):
                    try:
                        out.append(fn())
                    except Exception as exc:
                        out.append("EXC:" + type(exc).__name__)
                return out
            val = getattr(a, meth)
            return val() if callable(val) else val
        if kind == "rec":
            if meth == "take":
                out = []
                for i, p in enumerate(a):
                    if i >= sc[0]:
                        break
                    out.append(p)
                return out
            if meth == "getitem":
                return a[sc[0]]
            if meth == "iter_open":
                self.iters[self.cur_step_id] = iter(a)
                self.count("probe.iterator_opened")
                return "OPEN"
            if meth == "iter_next":
                it = self.iters.get(sc[0])
                if it is None:
                    return "NOITER"
                if sum(1 for k in self.iters if k != sc[0]):
                    self.count("probe.iterator_advanced_while_others_open")
                out = []
                for _ in range(sc[1]):
                    try:
                        out.append(next(it))
                    except StopIteration:
                        out.append("STOP")
                        break
                return out
            if meth == "pairs":
                import itertools
                return [[p, q] for p, q in itertools.islice(
                    zip(a, itertools.islice(a, 1, None)), sc[0])]
            if meth == "loop_query":
                import itertools
                out = []
                for p in itertools.islice(a, sc[0]):
                    out.append([p, a.get_is_valid(p), a.get_next(p)])
                return out
            if meth in REC_ARG:
                return getattr(a, meth)(ops[1])
            if meth == "contains":
                # membership: no __contains__, so Python iterates and compares
                return [ops[1] in a, ops[1] in list(a)]
            if meth == "add":
                return a + ops[1]
            if meth == "radd":
                return ops[1] + a
            if meth == "sub":
                return a - ops[1]
            if meth == "cmp":
                b = ops[1]
                return [a == b, a != b, hash(a) == hash(b), len({a, b})]
            if meth == "make":
                form, reps = sc
                self.count("probe.rec_built_from_pool_values")
                if form == "start_dur":
                    return data.TimeRecurrence(
                        repetitions=reps, start_point=ops[0],
                        duration=ops[1])
                if form == "dur_end":
                    return data.TimeRecurrence(
                        repetitions=reps, end_point=ops[0], duration=ops[1])
                if form == "start_end":
                    return data.TimeRecurrence(
                        repetitions=reps, start_point=ops[0],
                        end_point=ops[1])
                return data.TimeRecurrence(
                    repetitions=reps, start_point=ops[0], duration=ops[1],
                    min_point=ops[2], max_point=ops[3])
            val = getattr(a, meth)
            return val() if callable(val) else val
        raise kernel.HarnessError("unknown op %r" % name)

    def check_all(self, step_no, opname, operand_names, raised):
        """The oracle: every value of the pool still has the slot snapshot it
        was admitted with; operands (and a sample) also the same str/hash."""
        for name in self.order:
            extras = []
            now = snap(self.pool[name], extras=extras)
            if now == self.snaps[name] and extras != self.extras[name]:
                # a slot the pinned classes do not have changed: decided by
                # what the value reports in public
                self.count("probe.extra_slot_changed")
                self.extras[name] = extras
                view = public_view(self.pool[name])
                if view != self.views[name]:
                    self.violate(
                        "public_view_changed", opname, step_no, victim=name,
                        victim_is_operand=name in operand_names,
                        op_raised=raised, before=self.views[name],
                        after=view)
                    self.views[name] = view
            if now != self.snaps[name]:
                self.violate(
                    "mutated", opname, step_no, victim=name,
                    victim_is_operand=name in operand_names,
                    op_raised=raised, before=self.snaps[name], after=now,
                    str_before=self.obs[name][0],
                    str_after=observe(self.pool[name])[0])
                self.snaps[name] = now       # report each change once
                self.obs[name] = observe(self.pool[name])
        import random
        sample = list(operand_names)
        rng = random.Random(self.trace["sample_salt"] + step_no)
        if self.order:
            sample += [rng.choice(self.order) for _ in range(2)]
        self.check_observed(sample, step_no, opname, operand_names)

    def check_observed(self, names, step_no, opname, operand_names=()):
        for name in names:
            if name not in self.pool:
                continue
            now = observe(self.pool[name])
            if now != self.obs[name]:
                self.violate("str_or_hash_changed", opname, step_no,
                             victim=name,
                             victim_is_operand=name in operand_names,
                             before=self.obs[name], after=now)
                self.obs[name] = now

    def api_sweep(self):
        """Public attributes not in the operation table are reported."""
        from metomi.isodatetime import data
        table = {data.TimePoint: set(TP_NOARG + TP_ARG),
                 data.Duration: set(DUR_NOARG),
                 data.TimeZone: set(TZ_NOARG),
                 data.TimeRecurrence: set(REC_NOARG + REC_ARG)}
        for cls, known in table.items():
            for attr in dir(cls):
                if not attr.startswith("_") and attr not in known:
                    self.uncovered.append("%s.%s" % (cls.__name__, attr))
            # ... and the operators a class defines itself: one that the
            # table does not exercise (a new __neg__, __truediv__, ...) is a
            # way around it
            for klass in cls.__mro__[:-1]:
                for attr, val in vars(klass).items():
                    if (attr.startswith("__") and attr.endswith("__") and
                            callable(val) and attr not in EXERCISED_DUNDERS):
                        self.uncovered.append("%s.%s" % (cls.__name__, attr))

    def run(self):
        from metomi.isodatetime import data, parsers
        trace = self.trace
        facade = world.TimeFacade(
            world.SimClock(946684800 * 10 ** 6),
            [trace["zone"]] + trace.get("alt_zones", ALT_ZONES))
        world.install_time(facade)
        world.set_env(world.ENV_CAL, None)
        world.set_env(world.ENV_REF, None)
        if trace.get("cache_max") is not None:
            world.shrink_caches(trace["cache_max"])
            self.count("arm.cache_shrink_runs")
        with kernel.guarded():
            data.Calendar.default().set_mode(trace["mode"])
        self.parsers = {
            "std": parsers.TimePointParser(),
            "asparsed": parsers.TimePointParser(),
            "trunc": parsers.TimePointParser(allow_truncated=True),
            "trunc_unknown": parsers.TimePointParser(
                allow_truncated=True, default_to_unknown_time_zone=True),
            "unknown_tz": parsers.TimePointParser(
                default_to_unknown_time_zone=True),
            "basic_only": parsers.TimePointParser(allow_only_basic=True),
            "with_format": parsers.TimePointParser(
                dump_format="CCYYDDDThhmm+hhmm"),
            "digits3": parsers.TimePointParser(num_expanded_year_digits=3)}
        self.dparser = parsers.DurationParser()
        self.rparser = parsers.TimeRecurrenceParser()
        from metomi.isodatetime.datetimeoper import DateTimeOperator
        self.dto = DateTimeOperator(calendar_mode=trace["mode"])
        self.api_sweep()
        classes = lib_classes()
        for step_no, step in enumerate(trace["steps"]):
            if step["k"] == "world":
                self.reask(step_no, 10)
                self.check_twins(step_no)
                self.asked = []
                self.world_epoch += 1
                facade.apply(step["act"])
                self.count("fault.world_" + step["act"][0])
                self.sig.append("world:" + step["act"][0])
                self.check_all(step_no, "world." + step["act"][0], [], False)
                continue
            if step["k"] == "mk":
                try:
                    with kernel.guarded():
                        val = self.make(step)
                except kernel.Hang:
                    continue
                except Exception:
                    continue
                self.admit(step["id"], val, [])
                self.made[step["id"]] = (step, self.world_epoch)
                self.sig.append("mk:" + step["t"])
                # parsing / constructing a new value is a public operation
                # too: it must leave every earlier value alone
                self.check_all(step_no, "mk." + step["t"], [], False)
                continue
            name = step["m"]
            missing = [o for o in step["a"] if o not in self.pool]
            if missing:
                self.results.append([step_no, "NOOPERAND"])
                continue
            ops = [self.pool[o] for o in step["a"]]
            if any(o in self.aliased for o in step["a"]):
                self.count("probe.op_on_aliased_result")
            for o in ops:
                if isinstance(o, data.TimePoint) and (
                        getattr(o, "hour_of_day", None) == 24):
                    self.count("probe.op_on_2400_operand")
                    break
            if name == "tp.add_tp":
                self.count("probe.truncated_addition")
            try:
                self.pairs.add("%s|%s" % (name, "+".join(
                    shape_of(o) for o in ops)))
            except Exception:
                pass
            if step.get("fork"):
                self.results.append([step_no, self.probe_in_fork(
                    step_no, name, ops, step)])
                self.count("ops")
                self.count("op." + name)
                self.sig.append("%d:%s?" % (step.get("c", 0), name))
                continue
            raised = False
            self.cur_step_id = step["id"]
            try:
                with kernel.guarded():
                    res = self.apply(name, ops, step["s"])
                out = canon_plain(res)
            except kernel.Hang:
                res, out, raised = None, "HANG", True
                self.count("ops_hang")
            except kernel.HarnessError:
                raise
            except Exception as exc:
                res, raised = None, True
                out = "EXC:%s:%s" % (type(exc).__name__, str(exc)[:120])
                self.count("probe.op_raised")
                self.count("fault.op_raised_partway")
            self.count("ops")
            self.count("op." + name)
            self.sig.append("%d:%s%s" % (step.get("c", 0), name,
                                         "!" if raised else ""))
            self.results.append([step_no, out])
            if out != "HANG":
                if step["a"] and step["a"][0] in self.pool and isinstance(
                        ops[0], data.TimeRecurrence):
                    # the same value was asked something before: ask again
                    self.reask(step_no, 2, about=step["a"][0])
                if not name.startswith("rec.iter_"):
                    # for a share of the answers that are values, also what
                    # the answer reports about itself in public (its epoch
                    # seconds, week date, ...), not only how it prints
                    view = public_view(res) if (
                        step_no % 3 == 0 and isinstance(res, classes)) else (
                            None)
                    self.asked.append([step_no, name, list(step["a"]),
                                       list(step["s"]), out, view])
            if isinstance(res, classes):
                self.admit(step["id"], res, step["a"])
            elif isinstance(res, (list, tuple)):
                for j, item in enumerate(res):
                    if isinstance(item, classes):
                        self.admit("%s.%d" % (step["id"], j), item,
                                   step["a"])
            self.check_all(step_no, name, step["a"], raised)
        self.reask(len(trace["steps"]), 25)
        self.check_twins(len(trace["steps"]))
        self.check_observed(list(self.order), len(trace["steps"]), "end")
        return self

    def battery(self, obj):
        """A value's answers to a fixed set of questions, with and without
        arguments (never asked of it before, possibly)."""
        import itertools
        from metomi.isodatetime import data
        out = [public_view(obj)]
        if not isinstance(obj, data.TimeRecurrence):
            return out
        try:
            with kernel.guarded():
                pts = list(itertools.islice(iter(obj), 8))
                out.append(["first8", canon_plain(pts)])
                for i in (0, 1, 3, 6):
                    try:
                        out.append(["item", i, canon_plain(obj[i])])
                    except Exception as exc:
                        out.append(["item", i, type(exc).__name__])
                for p in pts[:3]:
                    out.append(["q", canon_plain(
                        [obj.get_is_valid(p), obj.get_next(p),
                         obj.get_prev(p), obj.get_first_after(p)])])
        except kernel.Hang:
            out.append("HANG")
        except Exception as exc:
            out.append("EXC:" + type(exc).__name__)
        return out

    def check_twins(self, step_no):
        """A value built from text or constructor arguments has a twin: the
        same construction done afresh.  Whatever happened to the value since
        (also what no earlier question observed), it answers as its twin
        does."""
        for name, (step, epoch) in list(self.made.items()):
            if epoch != self.world_epoch or name not in self.pool:
                continue
            try:
                with kernel.guarded():
                    twin = self.make(step)
            except Exception:
                continue
            mine, other = self.battery(self.pool[name]), self.battery(twin)
            self.count("twins_compared")
            if mine != other:
                diff = [[a, b] for a, b in zip(mine, other) if a != b][:3]
                self.violate("differs_from_twin", "mk." + step["t"], step_no,
                             victim=name, mk=step, value_vs_twin=diff)
            del self.made[name]
        self.check_all(step_no, "twins", [], False)

    def probe_in_fork(self, step_no, name, ops, step):
        """An operation that may never return on this tree: performed in a
        throw-away fork of this very process (the whole pool comes along,
        copy on write) under a short alarm.  If it returns, the fork checks
        every value as after any other step and reports what it found; this
        process stays as it was either way."""
        def probe():
            kernel.CALL_ALARM_S = 3.0
            first = len(self.violations)
            raised = False
            try:
                with kernel.guarded():
                    out = canon_plain(self.apply(name, ops, step["s"]))
            except kernel.Hang:
                return "HANG", []
            except Exception as exc:
                raised = True
                out = "EXC:%s:%s" % (type(exc).__name__, str(exc)[:120])
            self.check_all(step_no, name, step["a"], raised)
            return out, self.violations[first:]
        try:
            out, found = kernel.in_fresh_fork(probe, (), timeout=60)
        except kernel.HarnessError as exc:
            if "deadline" in str(exc):
                out, found = "HANG", []
            else:
                raise
        self.count("probe.forked_probe_" + (
            "hang" if out == "HANG" else "returned"))
        self.violations.extend(found)
        return out

    def reask(self, step_no, limit, about=None):
        """Observable state includes the answers to questions that take
        arguments: a question answered earlier (same operation, same
        operands, same world) is asked again and must get the same answer
        -- a value that remembers something about a query in a place the
        no-argument view does not show is caught here."""
        import random
        cands = [q for q in self.asked if about is None or (
            q[2] and q[2][0] == about)]
        if not cands:
            return
        rng = random.Random(self.trace["sample_salt"] * 31 + step_no)
        picks = cands if len(cands) <= limit else rng.sample(cands, limit)
        for q_step, name, operand_names, scalars, answer, view in picks:
            if any(o not in self.pool for o in operand_names):
                continue
            ops = [self.pool[o] for o in operand_names]
            view_now = None
            try:
                with kernel.guarded():
                    res = self.apply(name, ops, scalars)
                    out = canon_plain(res)
                if view is not None:
                    view_now = public_view(res)
            except kernel.Hang:
                continue
            except kernel.HarnessError:
                raise
            except Exception as exc:
                out = "EXC:%s:%s" % (type(exc).__name__, str(exc)[:120])
            self.count("reasked")
            if out == answer and view is not None and view_now != view:
                self.violate("answer_changed", name, step_no,
                             asked_at_step=q_step, operands=operand_names,
                             scalars=scalars, before=[a for a, b in zip(
                                 view, view_now or []) if a != b][:4],
                             after=[b for a, b in zip(
                                 view, view_now or []) if a != b][:4],
                             answer_prints_the_same=True)
            if out != answer:
                self.violate("answer_changed", name, step_no,
                             asked_at_step=q_step, operands=operand_names,
                             scalars=scalars, before=answer, after=out)
        self.check_all(step_no, "reask", [], False)


def execute(trace):
    kernel.import_library()
    sim = Sim(trace).run()
    return {"results": sim.results, "violations": sim.violations,
            "counters": sim.counters, "sig": sim.sig,
            "pool": len(sim.order), "uncovered": sim.uncovered,
            "pairs": sorted(sim.pairs)}


def check_trace_full(trace):
    res = kernel.in_fresh_fork(execute, (trace,))
    counters = dict(res["counters"])
    counters["pool_values_watched"] = res["pool"]
    dig = kernel.digest([res["results"], res["violations"]])
    sig = hashlib.sha256("|".join(res["sig"]).encode()).hexdigest()[:16]
    nontrivial = any(s.endswith("!") for s in res["sig"]) or (
        counters.get("probe.op_on_aliased_result", 0) > 0)
    return res["violations"], {
        "counters": counters, "digest": dig, "sig": sig,
        "nontrivial": nontrivial, "states": res["pairs"],
        "uncovered": res["uncovered"]}


def check_trace(trace):
    return check_trace_full(trace)[0]


def make_trace(job):
    kind, seed, index = job
    rng = kernel.run_rng(PROP, seed, index, kind)
    if kind == "directed":
        return gen_directed(rng, index)
    if kind == "scenario":
        return gen_scenario(index)
    return gen_random(rng, index)


def abbreviate(trace, n=10):
    t = dict(trace)
    t["steps"] = trace["steps"][:n]
    t["steps_total"] = len(trace["steps"])
    return t


def run_job(job):
    trace = make_trace(job)
    violations, info = check_trace_full(trace)
    res = {"index": "%s:%s" % (job[0], job[2]), "counters": info["counters"],
           "digest": info["digest"],
           "sets": {"uncovered_api": info["uncovered"],
                    "states": info["states"]},
           "violations": [dict(v, job=list(job)) for v in violations]}
    res["counters"]["runs." + job[0]] = 1
    if info["nontrivial"]:
        res["sets"]["sigs"] = [info["sig"]]
    if job[2] < 2:
        res["sample"] = abbreviate(trace)
    return res


def prune(trace):
    """Drop steps whose operands no longer exist (and so on, transitively)."""
    have = set()
    steps = []
    for step in trace["steps"]:
        if step["k"] == "world":
            steps.append(step)
            continue
        if step["k"] == "mk":
            have.add(step["id"])
            steps.append(step)
            continue
        if all(o.split(".")[0] in have for o in step["a"]):
            have.add(step["id"])
            steps.append(step)
    return dict(trace, steps=steps)


def shrink_candidates(trace):
    if trace["mode"] != "gregorian":
        yield dict(trace, mode="gregorian")
    if trace["zone"] != [0, 0, 0]:
        yield dict(trace, zone=[0, 0, 0])


def jobs_for(tier, seed):
    n_seeds = len(all_seed_steps())
    n_dir = n_seeds if tier == "quick" else n_seeds * 7
    n = 2000 if tier == "quick" else 60000
    return [("scenario", seed, i) for i in range(
        6 if tier == "quick" else 21)] + [
        ("directed", seed, i) for i in range(n_dir)] + [
        ("random", seed, i) for i in range(n)]


def extra_coverage(agg):
    return {"public_api_not_in_operation_table": sorted(
        agg.sets.get("uncovered_api", ())),
        "pool_values_watched": agg.counters.get("pool_values_watched", 0),
        "distinct_operation_x_operand_shape_combinations": len(
            agg.sets.get("states", ()))}


RULE = (
    "each case is one seeded history of 20-150 public operations (arithmetic, "
    "comparison, hashing, representation/zone conversion, formatting, "
    "iteration, membership and neighbour queries, recurrences built from pool "
    "values) by 1-3 clients over a shared pool of TimePoint / Duration / "
    "TimeZone / TimeRecurrence values; evaluations = operations after each of "
    "which every pool value's deep slot snapshot was re-checked; a case is "
    "non-trivial when an operation raised part-way or touched a value "
    "aliased with another pool value, and distinct by the SHA-256 of its "
    "sequence of (client, operation name, raised?)")

ASSUMPTIONS = [
    "observable state = every state slot of the pinned classes along the MRO "
    "(recursively through linked library values) plus str() and hash(); a "
    "change in a slot the pinned classes do not have is judged by the value's "
    "complete public view (all properties and no-argument getters, str, repr, "
    "hash stability) instead",
    "a quarter or more of the runs re-wrap the library's lru_cache tables "
    "with maxsize 0/1/2/8 so that eviction and refill are the common path",
    "truncated+full additions in the run itself are restricted to "
    "whole-second, hour != 24 operands (other shapes do not terminate on "
    "this tree: C20 territory); the directed family tries the others in a "
    "throw-away fork under a 3 s alarm",
    "no exception is injected at arbitrary lines inside an operation: the "
    "property speaks of completed public operations",
    "sampling, not enumeration: a clean batch is evidence, not proof",
]
