"""C19 -- the command line prints exactly what the library computes.

The CLI (main(argv)) runs in-process as a node inside the simulated
environment: argv, two environment variables, stdin/stdout, exit status, the
simulated clock and zone database, and the process-wide calendar that every
invocation resets.  A run is a history of invocations with the environment
changing between and inside them and a host actor using the library in the
same process.  Oracles: a notation-level reference model (cli_model.py) and
the library composed directly without DateTimeOperator/main.
"""
import hashlib

from . import cli_model as cm
from . import kernel, model, world

PROP = "C19"

HOT_YEARS = [0, 1, 4, 99, 100, 400, 1600, 1900, 1969, 1970, 1999, 2000,
             2001, 2004, 2019, 2020, 2023, 2024, 2038, 2100, 2400, 9998,
             9999]
X_YEARS = [-2000, -400, -1, 0, 2000, 9999, 10000, 12345, 99999]
OFFSETS = [0, 0, 0, 60, -60, 330, -210, 345, 765, -720, 1, -1, 59, -59,
           840, 1439, -1439, 5999, -5999]
EXPECTED_PROBES = [
    "kind.point", "kind.diff", "kind.total", "kind.rec", "kind.bad",
    "opt.utc", "opt.calendar", "opt.ref", "env.ref", "env.cal",
    "opt.print_format", "neg_offset_unescaped", "neg_offset_escaped",
    "leak_check_after_non_gregorian", "now_across_transition", "stdin",
    "zoneless_local", "refusal_expected", "nominal_offset", "hour24",
    "entered_via_sys_argv"]


# --------------------------------------------------------------------------
# generation

def gen_notation(rng, need_time=None, allow_reduced=True, need_zone=False):
    r = rng.random()
    if allow_reduced and need_time is not True and r < 0.12:
        date = rng.choice(cm.REDUCED)
        return {"date": date, "ystyle": "ccyy" if date == "c" else rng.choice(
            ["ccyy", "ccyy", "x"]), "time": None, "dec": None, "zone": None}
    date = rng.choice(cm.EXT_DATES + cm.BAS_DATES + ("cal_ext", "cal_ext"))
    ystyle = "x" if rng.random() < 0.2 else "ccyy"
    if need_time is not True and not need_zone and rng.random() < 0.1:
        return {"date": date, "ystyle": ystyle, "time": None, "dec": None,
                "zone": None}
    time = rng.choice(["hms", "hms", "hms", "hms_dec", "hm_dec", "h_dec",
                       "hm", "h"])
    zone = rng.choice(["Z", "hhmm", "hhmm", "hh", None])
    if need_zone and zone is None:
        zone = "hhmm"
    return {"date": date, "ystyle": ystyle, "time": time,
            "dec": rng.choice([",", "."]), "zone": zone}


def gen_written(rng, mode, notation, p_invalid=0.04):
    """Fields as they will be written, valid under `mode` unless corrupted
    on purpose."""
    if notation["ystyle"] == "x":
        y = rng.choice(X_YEARS + HOT_YEARS[:6])
    else:
        y = rng.choice(HOT_YEARS) if rng.random() < 0.8 else rng.randint(
            0, 9999)
    rep = cm.rep_of(notation)
    w = {"rep": rep, "y": y}
    d = notation["date"]
    if rep == "cal":
        if d == "c":
            w["y"] = (y // 100) * 100
            w["m"], w["d"] = 1, 1
        elif d == "y":
            w["m"], w["d"] = 1, 1
        else:
            w["m"] = rng.choice([1, 2, 2, 3, 12, rng.randint(1, 12)])
            dim = model.days_in_month(mode, w["m"], w["y"])
            w["d"] = 1 if d == "ym" else rng.choice(
                [1, dim, dim, max(1, dim - 1), rng.randint(1, dim)])
    elif rep == "ord":
        diy = model.days_in_year(mode, y)
        w["doy"] = rng.choice([1, 59, 60, diy, diy, rng.randint(1, diy)])
    else:
        wiy = model.weeks_in_year(mode, y)
        w["w"] = rng.choice([1, wiy, wiy, rng.randint(1, wiy)])
        w["wd"] = 1 if d.startswith("yw") else rng.randint(1, 7)
    t = notation["time"]
    if t is not None:
        H = rng.choice([0, 0, 12, 23, rng.randint(0, 23)])
        M = rng.choice([0, 30, 59, rng.randint(0, 59)])
        S = rng.choice([0, 30, 59, rng.randint(0, 59)])
        us = 0
        if t == "hms_dec":
            us = rng.choice([500000, 250000, 1, 999999, 120000,
                             rng.randrange(10 ** 6)])
        elif t == "hm_dec":
            S = rng.choice([0, 15, 30, 45])
        elif t == "h_dec":
            M, S = rng.choice([(0, 0), (15, 0), (30, 0), (45, 0)])
        elif t == "hm":
            S = 0
        elif t == "h":
            M = S = 0
        if t in ("hms", "hm", "h") and rng.random() < 0.05:
            H, M, S = 24, 0, 0
        w.update(H=H, M=M, S=S, us=us)
        z = notation["zone"]
        if z == "Z":
            w["off"] = 0
        elif z == "hh":
            w["off"] = 60 * rng.choice([0, 1, -1, 5, -11, 13, 23, -23, 99])
        elif z == "hhmm":
            w["off"] = rng.choice(OFFSETS)
            if t == "h_dec":
                # decimal hours stay binary-exact only under quarter-hour
                # zone conversions
                w["off"] = rng.choice([0, 60, -60, 330, -210, 345, 765, -720,
                                       15, -45, 5985])
        else:
            w["off"] = None
    else:
        w.update(H=0, M=0, S=0, us=0, off=None)
    if rng.random() < p_invalid:
        if rep == "cal" and d not in ("c", "y", "ym"):
            w["d"] = model.days_in_month(mode, w["m"], w["y"]) + 1
        elif rep == "ord":
            w["doy"] = model.days_in_year(mode, y) + 1
        elif rep == "week" and not d.startswith("yw"):
            w["w"] = model.weeks_in_year(mode, y) + 1
    return w


def written_text(notation, w):
    f = dict(w)
    f["wy"] = w["y"]
    return cm.render(notation, f, w["off"] if w["off"] is not None else 0)


def gen_offset(rng, notation_time, allow_nominal=True):
    """One offset: {"parts":[(num,unit)...] or None, "text":..., "neg":..,
    "us": exact microseconds or None (nominal)}."""
    neg = rng.random() < 0.35
    if allow_nominal and rng.random() < 0.2:
        text = rng.choice(["P1M", "P1Y", "P1Y1M", "P11M", "P1M1D", "P4Y",
                           "P1Y2M3DT4H5M6S", "P12M", "P2M", "P13M", "P3Y1D",
                           "P1M15DT12H"])
        if notation_time in ("h_dec", "hm_dec") and "T" in text:
            text = "P1Y2M3D"    # decimal hours/minutes: whole days only,
            #                     so that binary floating point stays exact
        return {"text": ("-" if neg else "") + text, "us": None}
    if rng.random() < 0.08 and notation_time not in ("h_dec", "hm_dec"):
        # the alternative, date-time-like duration notation
        # P[YYYY]-[MM]-[DD]T[hh]:[mm]:[ss] (basic, extended or ordinal)
        dd, hh, mi, ss = (rng.choice([0, 1, 2, 28]), rng.choice([0, 1, 23]),
                          rng.choice([0, 30]), rng.choice([0, 15]))
        form = rng.choice(["ext", "bas", "ord", "ext_hm"])
        if form == "ext":
            body = "P0000-00-%02dT%02d:%02d:%02d" % (dd, hh, mi, ss)
        elif form == "bas":
            body = "P000000%02dT%02d%02d%02d" % (dd, hh, mi, ss)
        elif form == "ord":
            dd, mi, ss = rng.choice([1, 45, 365]), 0, 0
            body = "P0000-%03dT%02d" % (dd, hh)
        else:
            ss = 0
            body = "P0000-00-%02dT%02d:%02d" % (dd, hh, mi)
        us = ((dd * 24 + hh) * 3600 + mi * 60 + ss) * 10 ** 6
        return {"text": ("-" if neg else "") + body,
                "us": -us if neg else us, "alt": True}
    if notation_time == "h_dec":
        parts = rng.choice([[("1", "H")], [("15", "M")], [("45", "M")],
                            [("1", "D")], [("2", "W")], [("36", "H")],
                            [("1", "D"), ("30", "M")]])
    elif notation_time == "hm_dec":
        parts = rng.choice([[("1", "M")], [("15", "S")], [("45", "S")],
                            [("1", "D")], [("90", "M")], [("1", "H"),
                                                           ("30", "S")]])
    else:
        parts = rng.choice([
            [("1", "D")], [("1", "W")], [("1", "H")], [("1", "M")],
            [("1", "S")], [("36", "H")], [("400", "D")], [("59", "D")],
            [("86400", "S")], [("1", "D"), ("12", "H")], [("0", "D")],
            [("%d" % rng.randint(1, 800), "D")],
            [("%d" % rng.choice([rng.randint(800, 5000),
                                 rng.randint(140000, 160000)]), "D")],
            [("%d" % rng.randint(1, 100000), "S")],
            [("2", "D"), ("3", "H"), ("4", "M"), ("5", "S")],
            [("0,5", "H")], [("1.5", "M")], [("0,25", "S")],
            [("90", "M"), ("30,5", "S")]])
    text = cm.duration_text(parts, neg)
    if not neg and rng.random() < 0.1:
        text = "+" + text          # an explicit plus sign is accepted too
    return {"text": text, "us": cm.duration_us(parts, neg)}


def spell_offsets(rng, offsets, which=1):
    """argv fragments for offsets, in the documented option spellings."""
    out = []
    flags = {}
    for off in offsets:
        names = (["--offset", "--offset1", "-s", "-1"] if which == 1
                 else ["--offset2", "-2"])
        name = rng.choice(names)
        text = off["text"]
        style = rng.choice(["eq", "sep", "esc"])
        if name.startswith("--") and style == "eq":
            out.append(["%s=%s" % (name, text)])
        elif style == "esc" and text.startswith("-"):
            out.append([name, "\\" + text])
            flags["neg_offset_escaped"] = True
        else:
            out.append([name, text])
            if text.startswith("-"):
                flags["neg_offset_unescaped"] = True
    return out, flags


def notation_format(notation):
    """The library's format string for a notation (used as --print-format)."""
    d = {"cal_ext": "CCYY-MM-DD", "cal_bas": "CCYYMMDD", "ord_ext": "CCYY-DDD",
         "ord_bas": "CCYYDDD", "week_ext": "CCYY-Www-D",
         "week_bas": "CCYYWwwD", "ym": "CCYY-MM", "y": "CCYY", "c": "CC",
         "yw_ext": "CCYY-Www", "yw_bas": "CCYYWww"}[notation["date"]]
    if notation["ystyle"] == "x":
        d = "+X" + d
    t = notation["time"]
    if t is None:
        return d
    ext = cm.is_ext(notation)
    sep = ":" if ext else ""
    dec = notation["dec"] or ","
    tt = {"hms": "hh%smm%sss" % (sep, sep),
          "hms_dec": "hh%smm%sss%stt" % (sep, sep, dec),
          "hm_dec": "hh%smm%snn" % (sep, dec), "h_dec": "hh%sii" % dec,
          "hm": "hh%smm" % sep, "h": "hh"}[t]
    z = notation["zone"]
    zz = {None: "", "Z": "Z", "hh": "+hh",
          "hhmm": "+hh:mm" if ext else "+hhmm"}[z]
    return d + "T" + tt + zz


LITERAL_ZONES = [330, 345, -210, 570, 60, -300, 765, -690, 0]


def literal_zone_pf(rng, n2):
    """A print format whose zone is written out as a number ('...+0530'):
    the date-time is converted to that zone."""
    off = rng.choice(LITERAL_ZONES)
    if n2["zone"] == "hh":
        off = (off // 60) * 60
    text = notation_format(dict(n2, zone=None)) + cm.render_zone(n2, off)
    return {"notation": n2, "text": text, "lit_off": off}


STRF_FORMATS = ["%Y-%m-%dT%H:%M:%S%z", "%F %X", "%Y%j", "%s", "%d/%m/%Y",
                "%H:%M", "%Y-%m-%d", "%j", "%X %z"]
# directives the library hands to the standard library's strftime
FALLBACK_STRF = ["%a %d %b %Y", "%A %d %B %Y %H:%M:%S", "%y%m%d",
                 "%b %d %Y (%a)"]


def gen_point_spec(rng, mode, allow_now=True):
    r = rng.random()
    spec = {"kind": "point"}
    if allow_now and r < 0.08:
        spec["src"] = rng.choice(["now", "noarg", "ref_none"])
        spec["offsets"] = [gen_offset(rng, "hms", False) for _ in range(
            rng.choice([0, 1, 2]))]
        return spec
    if r < 0.16:
        return gen_pfmt_spec(rng, mode, spec)
    if r < 0.20 and model.BASE[mode] == "gregorian":
        return gen_ctime_spec(rng, spec)
    notation = gen_notation(rng)
    w = gen_written(rng, mode, notation)
    spec.update(src=rng.choice(["arg"] * 6 + ["stdin", "ref_opt", "ref_env"]),
                notation=notation, written=w, text=written_text(notation, w))
    n_off = rng.choice([0, 1, 1, 2, 3])
    spec["offsets"] = [gen_offset(rng, notation["time"]) for _ in range(n_off)]
    r = rng.random()
    if r < 0.2:
        n2 = gen_notation(rng, allow_reduced=True)
        if n2["zone"] == "hh":
            n2["zone"] = "hhmm"
        if n2["time"] in ("hms_dec", "hm_dec", "h_dec"):
            # what a decimal print format shows for a point that is not in
            # that decimal form is not something C19 states: keep to hh:mm:ss
            n2["time"] = "hms"
        spec["pf"] = {"notation": n2, "text": notation_format(n2)}
        if n2["time"] and n2["zone"] in ("hhmm", "hh") and (
                rng.random() < 0.3):
            spec["pf"] = literal_zone_pf(rng, n2)
    elif r < 0.3:
        spec["pf"] = {"strf": rng.choice(STRF_FORMATS)}
    elif r < 0.36 and model.BASE[mode] == "gregorian" and (
            1100 <= w["y"] <= 9900):
        spec["pf"] = {"strf": rng.choice(FALLBACK_STRF), "fallback": True}
        if rng.random() < 0.3:
            # the fraction of the second, as the fallback prints it; kept to
            # fractions that are exact in binary (the fallback truncates
            # 1e6 * a float)
            spec["pf"]["strf"] = rng.choice(["%H:%M:%S.%f", "%S.%f %a",
                                             "%Y-%m-%d %f"])
            if notation["time"] == "hms_dec":
                w["us"] = rng.choice([500000, 250000, 750000, 125000, 0])
                spec["text"] = written_text(notation, w)
            elif notation["time"] in ("hm_dec", "h_dec"):
                spec["pf"]["strf"] = "%a %d %b %Y"
            spec["offsets"] = [rng.choice(DYADIC_OFFSETS) for _ in range(
                rng.choice([0, 1, 2]))] if "%f" in spec["pf"]["strf"] else (
                    spec["offsets"])
        if w["rep"] == "week" and rng.random() < 0.6:
            # week dates whose week-year is not their calendar year
            w["w"] = rng.choice([1, model.weeks_in_year(mode, w["y"])])
            w["wd"] = rng.choice([1, 6, 7]) if "wd" in w else 1
            if notation["date"].startswith("yw"):
                w["wd"] = 1
            spec["text"] = written_text(notation, w)
    return spec


DYADIC_OFFSETS = [{"text": "PT0.25S", "us": 250000},
                  {"text": "-PT0,5S", "us": -500000},
                  {"text": "PT1.75S", "us": 1750000},
                  {"text": "PT1M0.125S", "us": 60125000},
                  {"text": "-P1DT0.5S", "us": -86400500000},
                  {"text": "PT2S", "us": 2000000}]

PARSE_FORMATS = [("%d/%m/%Y %H:%M:%S", "hms", False),
                 ("%Y%m%d%H", "h", False),
                 ("%Y-%j", None, False),
                 ("%F %X %z", "hms", True),
                 ("%Y%m%dT%H%M%S%z", "hms", True),
                 ("%H:%M %d.%m.%Y", "hm", False),
                 ("%Y/%j %H", "h", False),
                 ("%s", "hms", True)]


def gen_ctime_spec(rng, spec):
    """The documented non-ISO input: C ctime text, printed back as ctime
    (gregorian only: it goes through the standard library's strptime; the
    point is in UTC whatever the local zone)."""
    n = {"date": "cal_ext", "ystyle": "ccyy", "time": "hms", "dec": ",",
         "zone": None}
    w = gen_written(rng, "gregorian", n, p_invalid=0)
    # (how the C library prints years below 1000 or what it does beyond 9999
    # is not the property's business: keep the shifted result inside)
    w["y"] = rng.choice([1100, 1600, 1900, 1970, 1999, 2000, 2024, 2038,
                         9900, rng.randint(1100, 9900)])
    w["d"] = min(w["d"], model.days_in_month("gregorian", w["m"], w["y"]))
    if w["H"] == 24:
        w["H"] = 0
    w["off"] = 0
    dn = model.to_daynum("gregorian", w["y"], w["m"], w["d"])
    f = dict(w, wd=model.weekday("gregorian", dn))
    spec.update(src=rng.choice(["arg", "arg", "stdin", "ref_opt", "ref_env"]),
                notation=n, written=w, text=cm.render_ctime(f),
                ctime=True)
    if rng.random() < 0.4:
        # Unix `date` text; printed back it loses its zone name (the standard
        # library's %Z of a naive datetime), so it is only judged together
        # with an ISO-style print format
        n2 = gen_notation(rng, allow_reduced=False)
        if n2["zone"] == "hh":
            n2["zone"] = "hhmm"
        if n2["time"] in ("hms_dec", "hm_dec", "h_dec"):
            n2["time"] = "hms"
        n2["ystyle"] = "ccyy"
        spec["text"] = cm.render_unix_date(f)
        spec["pf"] = {"notation": n2, "text": notation_format(n2)}
    spec["offsets"] = [o for o in [gen_offset(rng, "hms", False)
                                   for _ in range(rng.choice([0, 1, 1, 2]))]
                       if abs(o["us"]) <= 900 * cm.UNIT_US["D"]]
    return spec


def gen_pfmt_spec(rng, mode, spec):
    """A date-time written under --parse-format (documented strptime
    subset); without a print format it is printed back under that format."""
    fmt, tform, zoned = rng.choice(PARSE_FORMATS)
    n = {"date": "ord_ext" if "%j" in fmt else "cal_ext", "ystyle": "ccyy",
         "time": tform, "dec": ",", "zone": "hhmm" if zoned else None}
    # only valid fields: what an impossible date does under a user-supplied
    # strptime format is decided by the documented fallback to the system's
    # (lenient, Gregorian) strptime, not by anything C19 states
    w = gen_written(rng, mode, n, p_invalid=0)
    if w.get("H") == 24:
        w["H"] = 0
    if fmt == "%s":
        # a count of seconds since the Unix epoch: an instant, whatever the
        # local zone; the library holds it in the local zone (UTC with --utc)
        count = rng.choice([0, 59, 86399, 951782400, 1709251199,
                            rng.randint(0, 4 * 10 ** 9)])
        f = cm.civil_fields(mode, count * 10 ** 6, 0)
        w = dict(f, rep="cal", off=0)
        spec.update(src="arg", notation=n, written=w, text=str(count),
                    pfmt=fmt, epoch_count=count)
        spec["offsets"] = [gen_offset(rng, "hms") for _ in range(
            rng.choice([0, 1, 1, 2]))]
        r = rng.random()
        if r < 0.3:
            spec["pf"] = {"strf": rng.choice(STRF_FORMATS)}
        elif r < 0.6:
            n2 = gen_notation(rng, need_time=True, allow_reduced=False)
            if n2["zone"] == "hh":
                n2["zone"] = "hhmm"
            if n2["time"] in ("hms_dec", "hm_dec", "h_dec"):
                n2["time"] = "hms"
            spec["pf"] = {"notation": n2, "text": notation_format(n2)}
        return spec
    if "%j" in fmt and cm.written_valid(w, mode):
        y, m, d = model.from_ordinal(mode, w["y"], w["doy"])
        w.update(m=m, d=d)
    elif "%j" in fmt:
        w.update(m=1, d=1)
    else:
        w["doy"] = 0
    if zoned and abs(w["off"]) >= 6000:
        w["off"] = 330
    f = dict(w, wy=w["y"])
    text = cm.render_strf(fmt, f, w["off"] or 0, 0)
    # (text with blanks in it travels on every carrier an ISO text does)
    spec.update(src=rng.choice(["arg", "arg", "stdin", "ref_opt", "ref_env"]),
                notation=n, written=w, text=text, pfmt=fmt)
    spec["offsets"] = [gen_offset(rng, "hms") for _ in range(
        rng.choice([0, 1, 1, 2]))]
    if rng.random() < 0.25:
        spec["pf"] = {"strf": rng.choice(STRF_FORMATS)}
    if (not zoned and model.BASE[mode] == "gregorian" and text and
            1000 <= w["y"] <= 9999 and rng.random() < 0.3):
        # "compatible with the POSIX strptime template format": leading
        # zeros are permitted, not required, and white space matches any
        # amount of white space (the documented fallback to the system's
        # strptime reads these; the point it builds is in UTC, so only
        # outputs that do not show the zone are generated)
        import re
        loose = re.sub(r"(?<!\d)0+(\d)", r"\1", text)
        if rng.random() < 0.4:
            loose = loose.replace(" ", "  ")
        if loose != text and "%Y%m%d%H" != fmt:
            spec["text"] = loose
            spec["unpadded"] = True
            spec["offsets"] = [o for o in spec["offsets"]
                               if o["us"] is not None]
            if spec.get("pf") and re.search(r"%[zs]", spec["pf"]["strf"]):
                spec.pop("pf")
    return spec


def assemble(rng, items, option_groups):
    """Intermix positional items and option groups like a user would: a
    random merge that keeps the order of the items and of the options
    (offsets are applied in the order given)."""
    a = [[i] for i in items]
    b = list(option_groups)
    argv = []
    while a or b:
        if a and (not b or rng.random() < len(a) / float(len(a) + len(b))):
            argv += a.pop(0)
        else:
            argv += b.pop(0)
    return argv


def common_options(rng, spec, env):
    groups = []
    if spec.get("utc"):
        # (argparse also accepts unambiguous prefixes of long options)
        groups.append([rng.choice(["--utc", "-u", "--utc", "--ut"])])
    if spec.get("cal"):
        groups.append(rng.choice([["--calendar", spec["cal"]],
                                  ["--calendar=" + spec["cal"]],
                                  ["--cal", spec["cal"]],
                                  ["--calen=" + spec["cal"]]]))
    return groups


def gen_invocation(rng, world_state):
    """One CLI invocation step with its own environment."""
    env = {"cal": None, "ref": None}
    r = rng.random()
    if r < 0.25:
        env["cal"] = rng.choice(model.SPELLINGS)
        if rng.random() < 0.15:
            # the variable's value is looked up case-insensitively
            env["cal"] = rng.choice([env["cal"].upper(),
                                     env["cal"].capitalize()])
    elif r < 0.28:
        env["cal"] = rng.choice(["", "bogus"])
    cal_opt = rng.choice(model.CLI_CHOICES) if rng.random() < 0.3 else None
    mode = model.mode_after_operator(cal_opt, env["cal"])
    if mode not in model.BASE:
        mode = "gregorian"
    utc = rng.random() < 0.3
    kind = rng.choices(["point", "diff", "total", "rec", "bad", "version"],
                       [40, 18, 7, 15, 18, 2])[0]
    # how the process is entered: main(argv) as a library call, or the way
    # the console script and `python -m` do it (sys.argv, main())
    step = {"k": "inv", "env": env, "stdin": None,
            "entry": rng.choice(["argv", "sys.argv", "sys.argv"])}
    if kind == "version":
        step["spec"] = {"kind": "version"}
        step["argv"] = [rng.choice(["--version", "-V"])]
        return step
    if kind == "point":
        spec = gen_point_spec(rng, mode)
        spec.update(utc=utc, cal=cal_opt)
        groups = common_options(rng, spec, env)
        og, flags = spell_offsets(rng, spec["offsets"])
        groups += og
        spec["flags"] = flags
        if spec.get("pf"):
            txt = spec["pf"].get("text") or spec["pf"]["strf"]
            name = rng.choice(["--print-format", "--format", "-f",
                               "--print", "--form"])
            groups.append(["%s=%s" % (name, txt)] if name.startswith("--")
                          and rng.random() < 0.5 else [name, txt])
        if spec.get("pfmt"):
            name = rng.choice(["--parse-format", "-p"])
            groups.append([name, spec["pfmt"]])
        src = spec["src"]
        items = []
        if src == "arg":
            items = [spec["text"]]
        elif src == "stdin":
            items = ["-"]
            step["stdin"] = spec["text"] + rng.choice(["", "\n"])
        elif src == "ref_opt":
            items = ["ref"]
            if spec["text"].startswith("-"):
                groups.append(["--ref=" + spec["text"]])
            else:
                groups.append(rng.choice([["--ref", spec["text"]],
                                          ["--ref=" + spec["text"]],
                                          ["-R", spec["text"]]]))
            if rng.random() < 0.5:
                env["ref"] = "1999-12-31T00:00:00Z"   # option must win
        elif src == "ref_env":
            items = ["ref"]
            env["ref"] = spec["text"]
        elif src == "now":
            items = ["now"]
        elif src == "ref_none":
            items = ["ref"]     # no --ref, no ISODATETIMEREF: the current time
        if items and items[0].startswith("-") and items != ["-"]:
            # a negative expanded year as an item: recorded separately
            spec["neg_year_item"] = True
        step["spec"] = spec
        step["argv"] = assemble(rng, items, groups)
        if src in ("now", "noarg", "ref_none") or (
                spec.get("written") and spec["written"]["off"] is None):
            if rng.random() < 0.3:
                step["inop"] = [[rng.randint(1, 8), gen_action(rng, 3)]]
        return step
    if kind == "diff":
        spec = {"kind": "diff", "utc": utc, "cal": cal_opt, "points": []}
        for _ in range(2):
            n = gen_notation(rng, allow_reduced=True)
            w = gen_written(rng, mode, n, p_invalid=0.02)
            spec["points"].append({"notation": n, "written": w,
                                   "text": written_text(n, w)})
        spec["offsets1"] = [gen_offset(rng, "hms", True) for _ in range(
            rng.choice([0, 0, 1, 2]))]
        spec["offsets2"] = [gen_offset(rng, "hms", True) for _ in range(
            rng.choice([0, 0, 1]))]
        groups = common_options(rng, spec, env)
        og1, f1 = spell_offsets(rng, spec["offsets1"], 1)
        og2, f2 = spell_offsets(rng, spec["offsets2"], 2)
        groups += og1 + og2
        spec["flags"] = dict(f1, **f2)
        r2 = rng.random()
        if r2 < 0.35:
            spec["total"] = rng.choice(["H", "M", "S", "h", "m", "s"])
            groups.append(rng.choice([["--as-total", spec["total"]],
                                      ["--as-total=" + spec["total"]]]))
        elif r2 < 0.45:
            # documented duration print format: letters y m d h M s
            spec["dpf"] = rng.choice(["d", "d,h", "dTh:M:s", "y,m,d,h,M,s",
                                      "d h M"])
            groups.append(["--print-format", spec["dpf"]])
        items = [p["text"] for p in spec["points"]]
        r3 = rng.random()
        if r3 < 0.1:
            step["stdin"] = "\n".join(items) + rng.choice(["", "\n"])
            items = ["-"]
            spec["via_stdin"] = True
        elif r3 < 0.25:
            # "ref" stands for one of the two points (documented usage 2.3-2.5)
            which = rng.randrange(2)
            ref_text = items[which]
            items[which] = "ref"
            if rng.random() < 0.5 or ref_text.startswith("-"):
                groups.append(["--ref=" + ref_text])
                if rng.random() < 0.5:
                    env["ref"] = "1999-12-31T00:00:00Z"
            else:
                env["ref"] = ref_text
            spec["via_ref"] = which
        elif r3 < 0.37:
            # the documented usages 2.1, 2.2, 2.4: one of the two is the
            # current time ('now', or 'ref' while no reference is given)
            which = rng.randrange(2)
            items[which] = rng.choice(["now", "now", "ref"])
            spec["via_now"] = which
            spec["points"][which] = {"notation": None, "written": {},
                                     "text": items[which]}
            if rng.random() < 0.3:
                step["inop"] = [[rng.randint(1, 8), gen_action(rng, 3)]]
        step["spec"] = spec
        step["argv"] = assemble(rng, items, groups)
        return step
    if kind == "total":
        parts = rng.choice([
            [("1", "H")], [("1", "H"), ("30", "M")], [("1", "D")],
            [("2", "W")], [("0,5", "H")], [("90", "S")], [("1", "D"),
                                                           ("12", "H")],
            [("%d" % rng.randint(0, 10 ** 6), "S")],
            [("%d" % rng.randint(0, 5000), "D"), ("7", "M")]])
        neg = rng.random() < 0.3
        spec = {"kind": "total", "text": cm.duration_text(parts, neg),
                "us": cm.duration_us(parts, neg), "cal": cal_opt,
                "unit": rng.choice(["H", "M", "S", "h", "m", "s"])}
        groups = common_options(rng, spec, env)
        groups.append(rng.choice([["--as-total", spec["unit"]],
                                  ["--as-total=" + spec["unit"]]]))
        item = spec["text"]
        if neg and rng.random() < 0.5:
            item = "\\" + item
        step["spec"] = spec
        step["argv"] = assemble(rng, [item], groups)
        if rng.random() < 0.2:
            # ITEM: "Time point, duration or recurrence string.  To read
            # from stdin use '-'"
            step["stdin"] = spec["text"] + rng.choice(["", "\n"])
            step["argv"] = assemble(rng, ["-"], groups)
        return step
    if kind == "rec":
        if rng.random() < 0.3:
            # any notation, as in the documented R/2020/P1Y: decided by
            # comparing with the library iterated directly
            n = gen_notation(rng)
        else:
            n = gen_notation(rng, need_time=True, allow_reduced=False,
                             need_zone=True)
        if n["time"] in ("hm_dec", "h_dec"):
            n["time"] = "hms"
        w = gen_written(rng, mode, n, p_invalid=0.02)
        if w["H"] == 24:
            w["H"] = 0
        exact = rng.random() < 0.7
        if exact:
            parts = rng.choice([[("1", "D")], [("6", "H")], [("1", "W")],
                                [("36", "H")], [("30", "D")], [("90", "M")],
                                [("1", "D"), ("1", "S")], [("400", "D")]])
            itext, ius = cm.duration_text(parts), cm.duration_us(parts)
        else:
            itext, ius = rng.choice(["P1M", "P1Y", "P1M1D", "P3M"]), None
        reps = rng.choice([None, None, 1, 2, 3, 5, 12, 30])
        form = rng.choice([3, 3, 3, 4, 1])
        if n["time"] is None or n["zone"] is None:
            form = rng.choice([3, 3, 4])
        spec = {"kind": "rec", "notation": n, "written": w, "form": form,
                "reps": reps, "interval_text": itext, "interval_us": ius,
                "utc": utc, "cal": cal_opt}
        ptxt = written_text(n, w)
        rp = "R%s" % ("" if reps is None else reps)
        if form == 3:
            spec["text"] = "%s/%s/%s" % (rp, ptxt, itext)
        elif form == 4:
            spec["text"] = "%s/%s/%s" % (rp, itext, ptxt)
        else:
            # two points: the second is the first plus an exact interval
            if ius is None:
                ius = 86400 * 10 ** 6 * 31
                spec["interval_us"] = ius
            spec["second_delta_us"] = ius
            spec["text"] = None   # built at execution (needs the mode)
        groups = common_options(rng, spec, env)
        if rng.random() < 0.7:
            spec["max"] = rng.choice([1, 2, 3, 5, 10, 12, 0, 0, -1, 40, 60])
            groups.append(rng.choice([["--max=%d" % spec["max"]]]))
        r = rng.random()
        if r < 0.12:
            spec["pf"] = {"strf": rng.choice(
                ["%Y-%m-%dT%H:%M:%S%z", "%Y%j %X", "%s"] + STRF_FORMATS)}
        elif r < 0.24:
            # the same ISO 8601 style formats a single date-time accepts
            n2 = gen_notation(rng, allow_reduced=True)
            if n2["zone"] == "hh":
                n2["zone"] = "hhmm"
            if n2["time"] in ("hms_dec", "hm_dec", "h_dec"):
                n2["time"] = "hms"
            spec["pf"] = {"notation": n2, "text": notation_format(n2)}
            if n2["time"] and n2["zone"] == "hhmm" and rng.random() < 0.3:
                spec["pf"] = literal_zone_pf(rng, n2)
        elif r < 0.34 and model.BASE[mode] == "gregorian" and (
                1100 <= w["y"] <= 9800):
            # directives only the standard library's strftime knows
            spec["pf"] = {"strf": rng.choice(FALLBACK_STRF + [
                "%a %b %d %H:%M:%S %Y", "%d %B %y", "%A %d.%m."]),
                "fallback": True}
        if spec.get("pf"):
            txt = spec["pf"].get("text") or spec["pf"]["strf"]
            name = rng.choice(["--print-format", "--format", "-f"])
            groups.append(["%s=%s" % (name, txt)] if name.startswith("--")
                          and rng.random() < 0.5 else [name, txt])
        step["spec"] = spec
        step["rec_groups"] = groups
        step["argv"] = None   # assembled at execution for form 1
        if rng.random() < 0.2:
            step["rec_stdin"] = True
        if form != 1:
            step["argv"] = assemble(rng, [spec["text"]], groups)
            if step.get("rec_stdin"):
                step["stdin"] = spec["text"] + rng.choice(["", "\n"])
                step["argv"] = assemble(rng, ["-"], groups)
        return step
    # malformed argument in some slot
    base = gen_invocation_valid_for_mutation(rng, mode, utc, cal_opt)
    step["spec"] = {"kind": "bad", "cal": cal_opt, "utc": utc,
                    "slot": base[1].split(":", 1)[0]}
    if base[1].startswith("stdin:"):
        step["stdin"] = base[1][6:] + rng.choice(["", "\n"])
    step["argv"] = base[0]
    return step


MUT_CHARS = "TZ:+-,.W/PRx0 9%٣é−\\=()s"
PARSE_FORMAT_SAMPLES = [
    ("%Y-%m-%dT%H:%M:%S", "2000-01-01T00:00:00"),
    ("%d/%m/%Y %H:%M", "28/02/2001 12:30"), ("%s", "951782400"),
    ("%Y%j", "2000060"), ("%Y-%m-%dT%H:%M:%S%z", "2000-01-01T00:00:00+0530"),
    ("%a %b %d %H:%M:%S %Y", "Tue Feb 29 12:00:00 2000"),
    ("%Y%m%dT%H%M", "20000229T1230")]


def mutate(rng, text):
    if not text:
        return rng.choice(["T", "-", "P", "R/"])
    r = rng.random()
    i = rng.randrange(len(text))
    if r < 0.25:
        return text[:i] + text[i + 1:]
    if r < 0.55:
        return text[:i] + rng.choice(MUT_CHARS) + text[i:]
    if r < 0.7:
        return text[:i] + rng.choice(MUT_CHARS) + text[i + 1:]
    if r < 0.8:
        return text[:i]
    if r < 0.9:
        j = rng.randrange(len(text))
        return text[:i] + text[j:]
    return text + text[i:]


def gen_invocation_valid_for_mutation(rng, mode, utc, cal_opt):
    n = gen_notation(rng)
    w = gen_written(rng, mode, n, p_invalid=0)
    ptext = written_text(n, w)
    n2 = gen_notation(rng)
    ptext2 = written_text(n2, gen_written(rng, mode, n2, p_invalid=0))
    shape = rng.choice(["point", "point_off", "diff", "rec", "total", "max",
                        "pf", "pf", "pfmt", "two_off", "ref", "stdin",
                        "bigexp"])
    opts = []
    if utc:
        opts.append("--utc")
    if cal_opt:
        opts += ["--calendar", cal_opt]
    off = gen_offset(rng, n["time"])["text"]
    import re
    if re.search(r"\d{4,}", off):
        # a damaged long number can become an astronomically large (but
        # finite) offset, which the library ticks over day by day for ever:
        # termination is not this property's business
        off = "P1DT2H"
    if shape == "point":
        return [mutate(rng, ptext)] + opts, "item"
    if shape == "point_off":
        return [ptext, "--offset=" + mutate(rng, off)] + opts, "offset"
    if shape == "two_off":
        return [ptext, ptext2, "--offset1=" + mutate(rng, off),
                "--offset2=" + mutate(rng, off)] + opts, "offset"
    if shape == "diff":
        if rng.random() < 0.5:
            return [mutate(rng, ptext), ptext2] + opts, "item1"
        return [ptext, mutate(rng, ptext2)] + opts, "item2"
    if shape == "rec":
        rec = "R3/%s/%s" % (ptext, "P1D")
        return [mutate(rng, rec)] + opts, "recurrence"
    if shape == "total":
        return ["--as-total=" + rng.choice(["H", "S", "x", ""]),
                mutate(rng, "PT1H30M")] + opts, "duration"
    if shape == "max":
        return ["R/%s/P1D" % ptext, "--max=" + mutate(rng, "10")] + opts, "max"
    if shape == "pf":
        fmt = notation_format(n2) if rng.random() < 0.6 else rng.choice(
            STRF_FORMATS + FALLBACK_STRF)
        return [ptext, "-f", mutate(rng, fmt)] + opts, "pf"
    if shape == "pfmt":
        fmt, text = rng.choice(PARSE_FORMAT_SAMPLES)
        if rng.random() < 0.3:
            fmt = fmt + fmt[-2:]        # a directive given twice
        else:
            fmt = mutate(rng, fmt)
        return [text, rng.choice(["-p", "--parse-format"]), fmt] + opts, "pfmt"
    if shape == "ref":
        return ["ref", "--ref=" + mutate(rng, ptext)] + opts, "ref"
    if shape == "stdin":
        return ["-"] + opts, "stdin:" + mutate(rng, ptext)
    # (huge *finite* offsets such as PT1e308H make the library tick over
    # day by day for ever: termination is C09/C20 territory, not generated)
    big = rng.choice(["PT1e999H", "PT1e400S", "PT1e999M", "PT1e999S",
                      "P1e5D", "PT0x10S", "PT1_0S", "PTinfS", "PTnanS",
                      "PT1E3M"])
    return [ptext, "--offset=" + big] + opts, "offset_big"


def gen_action(rng, nzones):
    r = rng.random()
    if r < 0.35:
        return ["tzset", rng.randrange(nzones)]
    if r < 0.65:
        return ["dst", rng.choice([0, 1])]
    mag = rng.choice([999, 10 ** 6, 3600 * 10 ** 6, 86400 * 10 ** 6,
                      400 * 86400 * 10 ** 6])
    delta = rng.randint(0, mag)
    return ["jump", -delta if rng.random() < 0.3 else delta]


def gen_zone(rng):
    std = rng.choice([0, 0, 60, -300, 330, -210, 765, -30, 1, -1, 840,
                      rng.randint(-1440, 1440)])
    if rng.random() < 0.6:
        dst = max(-1440, min(1440, std + rng.choice([60, 30, -60])))
        return (-60 * std, -60 * dst, 1)
    return (-60 * std, -60 * std, 0)


def all_notations():
    out = []
    for date in cm.EXT_DATES + cm.BAS_DATES:
        for ystyle in ("ccyy", "x"):
            out.append({"date": date, "ystyle": ystyle, "time": None,
                        "dec": None, "zone": None})
            for time in cm.TIMES:
                for zone in ("Z", "hhmm", "hh", None):
                    for dec in ((",", ".") if time.endswith("dec")
                                else (",",)):
                        out.append({"date": date, "ystyle": ystyle,
                                    "time": time, "dec": dec, "zone": zone})
    for date in cm.REDUCED:
        for ystyle in (("ccyy",) if date == "c" else ("ccyy", "x")):
            out.append({"date": date, "ystyle": ystyle, "time": None,
                        "dec": None, "zone": None})
    return out


def point_step(rng, notation, mode, cal_opt, env_cal, utc, offsets):
    w = gen_written(rng, mode, notation, p_invalid=0)
    spec = {"kind": "point", "src": "arg", "notation": notation,
            "written": w, "text": written_text(notation, w),
            "offsets": offsets, "utc": utc, "cal": cal_opt}
    groups = common_options(rng, spec, None)
    og, flags = spell_offsets(rng, offsets)
    spec["flags"] = flags
    step = {"k": "inv", "env": {"cal": env_cal, "ref": None}, "stdin": None,
            "entry": rng.choice(["argv", "sys.argv"]),
            "spec": spec, "argv": assemble(rng, [spec["text"]], groups + og)}
    return step


def rec_step(rng, pf, mode, cal_opt, env_cal):
    """Three points of a recurrence printed with print format `pf`."""
    n = {"date": "cal_ext", "ystyle": "ccyy", "time": "hms", "dec": ",",
         "zone": rng.choice(["Z", "hhmm"])}
    w = gen_written(rng, mode, n, p_invalid=0)
    if w["H"] == 24:
        w["H"] = 0
    if pf.get("fallback"):
        w["y"] = 1100 + abs(w["y"]) % 8700
        if w["m"] == 2 and w["d"] > 28:
            w["d"] = 28
    itext, ius = rng.choice([("P1D", 86400 * 10 ** 6),
                             ("PT6H", 21600 * 10 ** 6), ("P1M", None),
                             ("P400D", 400 * 86400 * 10 ** 6)])
    text = "R3/%s/%s" % (written_text(n, w), itext)
    spec = {"kind": "rec", "notation": n, "written": w, "form": 3,
            "reps": 3, "interval_text": itext, "interval_us": ius,
            "utc": False, "cal": cal_opt, "text": text, "pf": pf}
    groups = common_options(rng, spec, None)
    groups.append(["-f", pf.get("text") or pf["strf"]])
    via_stdin = rng.random() < 0.3
    return {"k": "inv", "env": {"cal": env_cal, "ref": None},
            "stdin": text + "\n" if via_stdin else None,
            "entry": rng.choice(["argv", "sys.argv"]), "spec": spec,
            "rec_groups": groups,
            "argv": assemble(rng, ["-" if via_stdin else text], groups)}


NOTATIONS_PER_TRACE = 10


def known_finding_steps():
    """The specific inputs of the findings recorded in known_findings.json,
    run in every check so that each KNOWN-FINDING line is backed by an
    observation of this very run."""
    env = {"cal": None, "ref": None}
    n_neg = {"date": "cal_ext", "ystyle": "x", "time": "h", "dec": ",",
             "zone": "Z"}
    w_neg = {"rep": "cal", "y": -2000, "m": 1, "d": 1, "H": 0, "M": 0,
             "S": 0, "us": 0, "off": 0}
    neg = {"k": "inv", "env": env, "stdin": None, "entry": "sys.argv",
           "argv": ["-002000-01-01T00Z"],
           "spec": {"kind": "point", "src": "arg", "notation": n_neg,
                    "written": w_neg, "text": "-002000-01-01T00Z",
                    "offsets": [], "utc": False, "cal": None, "flags": {}}}
    pct = {"k": "inv", "env": env, "stdin": None, "entry": "argv",
           "argv": ["2000-01-01T00:00:00Z", "-f", "CCYY-MM-DDThh%.iiZ"],
           "spec": {"kind": "bad", "cal": None, "utc": False, "slot": "pf"}}
    n_rec = {"date": "cal_ext", "ystyle": "ccyy", "time": "hms_dec",
             "dec": ",", "zone": "Z"}
    w_rec = {"rep": "cal", "y": 2024, "m": 12, "d": 31, "H": 0, "M": 0,
             "S": 0, "us": 100000, "off": 0}
    rec = {"k": "inv", "env": env, "stdin": None, "entry": "argv",
           "argv": ["R3/PT1S/2024-12-31T00:00:00,1Z"], "rec_groups": [],
           "spec": {"kind": "rec", "notation": n_rec, "written": w_rec,
                    "form": 4, "reps": 3, "interval_text": "PT1S",
                    "interval_us": 10 ** 6, "utc": False, "cal": None,
                    "text": "R3/PT1S/2024-12-31T00:00:00,1Z"}}
    return [neg, pct, rec]


def gen_directed(rng, index):
    """Directed family: every documented notation (date form x year style x
    time form x decimal sign x zone form), each printed back unshifted, shifted
    by an exact offset, and shifted by a month/year offset under --utc --
    notation preservation is checked for ALL notations in every run."""
    notations = all_notations()
    n_chunks = (len(notations) + NOTATIONS_PER_TRACE - 1) // (
        NOTATIONS_PER_TRACE)
    chunk = index % n_chunks
    variant = index // n_chunks
    mode_plan = [("gregorian", None, None), ("360day", "360day", None),
                 ("365_day", None, "365_day"), ("366day", "366day", "360day")]
    mode, cal_opt, env_cal = mode_plan[variant % len(mode_plan)]
    steps = known_finding_steps() if index == 0 else []
    for notation in notations[chunk * NOTATIONS_PER_TRACE:
                              (chunk + 1) * NOTATIONS_PER_TRACE]:
        steps.append(point_step(rng, notation, mode, cal_opt, env_cal,
                                False, []))
        steps.append(point_step(rng, notation, mode, cal_opt, env_cal,
                                rng.random() < 0.3,
                                [gen_offset(rng, notation["time"], False)]))
        steps.append(point_step(rng, notation, mode, cal_opt, env_cal, True,
                                [gen_offset(rng, notation["time"], False),
                                 {"text": rng.choice(["P1M", "-P1Y", "P1Y1M"]),
                                  "us": None}]))
        if notation["time"] not in ("hms_dec", "hm_dec", "h_dec") and (
                notation["zone"] != "hh"):
            # the notation as the print format of a recurrence
            steps.append(rec_step(
                rng, {"notation": notation, "text": notation_format(notation)},
                mode, cal_opt, env_cal))
        if mode != "gregorian":
            steps.append({"k": "host", "act": "set_mode",
                          "sp": rng.choice(model.SPELLINGS)})
    if mode == "gregorian":
        for strf in FALLBACK_STRF[chunk % 2::2] + ["%a %b %d %H:%M:%S %Y"]:
            steps.append(rec_step(rng, {"strf": strf, "fallback": True},
                                  mode, cal_opt, env_cal))
    return {"property": PROP, "kind": "directed", "index": index,
            "zones": [[0, 0, 0], [-19800, -19800, 0], [12600, 9000, 1]],
            "cur": variant % 3, "isdst": variant % 2,
            "start_us": 946684800 * 10 ** 6, "steps": steps}


def gen_random(rng, index):
    zones = [gen_zone(rng) for _ in range(3)]
    start = rng.choice([946684800, 1700000000, 86400 * 59,
                        rng.randint(0, 4 * 10 ** 9)])
    nsteps = rng.randint(10, 60)
    p_host = rng.choice([0.0, 0.1, 0.25])
    p_pert = rng.choice([0.0, 0.1, 0.3])
    steps = []
    for _ in range(nsteps):
        r = rng.random()
        if r < p_host:
            act = rng.choice(["set_mode", "set_mode", "use", "cache_clear",
                              "dto", "scratch_cal"])
            steps.append({"k": "host", "act": act,
                          "sp": rng.choice(model.SPELLINGS)})
        elif r < p_host + p_pert:
            steps.append({"k": "pert", "act": gen_action(rng, 3)})
        else:
            steps.append(gen_invocation(rng, None))
    return {"property": PROP, "kind": "random", "index": index,
            "zones": zones, "cur": rng.randrange(3),
            "isdst": rng.choice([0, 1]),
            "start_us": start * 10 ** 6 + rng.randrange(10 ** 6),
            "steps": steps}


# --------------------------------------------------------------------------
# execution

class Sim(object):
    def __init__(self, trace):
        self.trace = trace
        self.violations = []
        self.counters = {}
        self.results = []
        self.sig = []
        self.states = set()
        self.facade = None
        self.host_mode = "gregorian"

    def count(self, key, n=1):
        self.counters[key] = self.counters.get(key, 0) + n

    def violate(self, cls, opkind, step_no, **extra):
        v = {"class": cls, "opkind": opkind, "step": step_no}
        v.update(extra)
        self.violations.append(v)

    # ---- environment
    def local_offsets(self, before):
        """Whole-minute local offsets the invocation may have used."""
        if not self.facade.fired:
            return [model.local_offset_seconds(*before) // 60]
        out = []
        cfgs = [before] + [c for _, _, c in self.facade.log] + [
            self.facade.config()]
        for tz, alt, dl, isdst in cfgs:
            for val in (-tz // 60, -alt // 60):
                if val not in out:
                    out.append(val)
        return out

    # ---- expectations from the reference model
    def expect_point_texts(self, spec, mode, before, served_times):
        """Set of acceptable outputs for a point invocation, or the token
        'REFUSE' (non-zero exit with a message), or None if the model does
        not decide (nominal offsets / print formats it does not render)."""
        utc = spec.get("utc")
        offsets = spec["offsets"]
        nominal = None
        if any(o["us"] is None for o in offsets):
            # month / year offsets: decided by the calendar rules of
            # cli_model.shift_instant -- except for the 24:00 spelling, where
            # "normalise, then step months" and "step months, then normalise"
            # differ and the property does not choose
            nominal = [cm.parse_designator_duration(o["text"]) if (
                o["us"] is None) else {"neg": False, "Y": 0, "M": 0,
                                       "us": o["us"]} for o in offsets]
            if None in nominal or spec["src"] in (
                    "now", "noarg", "ref_none") or spec.get("ctime") or (
                    spec.get("written") or {}).get("H") == 24:
                return None
            total = 0
        else:
            total = sum(o["us"] for o in offsets)
        pf = spec.get("pf")
        if spec["src"] in ("now", "noarg", "ref_none"):
            outs = set()
            for val in served_times:
                t_us = int(round(val * 1e6))
                for off in ([0] if utc else self.local_offsets(before)):
                    zone = "Z" if (utc or off == 0) else "hhmm"
                    n = {"date": "cal_ext", "ystyle": "ccyy", "time": "hms",
                         "dec": ",", "zone": zone}
                    f = cm.civil_fields(mode, t_us + total, off)
                    text = cm.render(n, f, off)
                    outs.add(text if text is not None else "REFUSE")
            return outs
        n, w = spec["notation"], spec["written"]
        if spec.get("ctime"):
            if model.BASE[mode] != "gregorian":
                return None
            t_us = cm.written_instant_us(w, mode, 0)
            f = cm.civil_fields(mode, t_us + total, 0)
            if pf is None:
                text = cm.render_ctime(f)
            elif "notation" in pf:
                text = cm.render(pf["notation"], f, 0)
            else:
                return None
            return {text if text is not None else "REFUSE"}
        if not cm.written_valid(w, mode):
            return {"REFUSE"}
        if w["off"] is None:
            in_offs = [0] if utc else self.local_offsets(before)
        else:
            in_offs = [w["off"]]
        outs = set()
        if spec.get("epoch_count") is not None:
            cases = [(spec["epoch_count"] * 10 ** 6, o, None) for o in (
                [0] if utc else self.local_offsets(before))]
        else:
            cases = [(cm.written_instant_us(w, mode, o), 0 if utc else o, o)
                     for o in in_offs]
        for t_us, out_off, off_in in cases:
            if nominal is not None:
                # --utc converts first; the shift happens in the zone and
                # representation the point is then held in
                t_us = cm.shift_instant(mode, w["rep"], t_us, out_off,
                                        nominal)
            strf = None
            if pf is None and spec.get("pfmt"):
                strf = spec["pfmt"]
            elif pf is not None and "strf" in pf:
                strf = pf["strf"]
            if strf is not None:
                f = cm.civil_fields(mode, t_us + total, out_off)
                text = cm.render_strf(strf, f, out_off,
                                      t_us + total)
                outs.add(text if text is not None else "REFUSE")
                if (t_us + total) % 10 ** 6 and "%s" in strf and (
                        text is not None):
                    # %s of a fractional instant: a whole number of seconds,
                    # floored or (before 1970) truncated toward zero; beyond
                    # ~1e9 s a double no longer resolves the microsecond and
                    # .999999 may round up to the next second
                    outs.add(cm.render_strf(strf, f, out_off,
                                            t_us + total + 10 ** 6))
                if w.get("H") == 24 and total == 0 and out_off == off_in:
                    f24 = cm.civil_fields(mode, t_us - 86400 * 10 ** 6,
                                          out_off)
                    f24.update(H=24, M=0, S=0, us=0)
                    alt = cm.render_strf(strf, f24, out_off, t_us)
                    outs.add(alt if alt is not None else "REFUSE")
                    if (pf or {}).get("fallback"):
                        # the standard library has no hour 24: an
                        # un-normalised end-of-day point may be refused
                        outs.add("REFUSE")
                continue
            if pf is None:
                out_n = n
            elif "notation" in pf:
                out_n = pf["notation"]
                if out_n["date"] in ("y", "c") and w["rep"] == "week":
                    # a bare year printed for a week date: calendar year or
                    # week-year is not something the property states
                    return None
                if out_n["zone"] == "Z":
                    out_off = 0
                if pf.get("lit_off") is not None:
                    out_off = pf["lit_off"]
            f = cm.civil_fields(mode, t_us + total, out_off)
            text = cm.render(out_n, f, out_off)
            outs.add(text if text is not None else "REFUSE")
            if n["time"] in ("h_dec", "hm_dec") and out_off != off_in:
                # a decimal hour/minute re-zoned by an odd number of minutes
                # is binary floating point: it may sit a hair below the exact
                # value, which the printed (floored) fields then show
                f = cm.civil_fields(mode, t_us + total - 1, out_off)
                f["us"] = 0
                text = cm.render(out_n, f, out_off)
                if text is not None:
                    outs.add(text)
            if w.get("H") == 24 and total == 0 and out_off == off_in:
                # nothing was added, so the end-of-day spelling may survive:
                # 24:00 of the written day is the same instant
                f24 = cm.civil_fields(mode, t_us - 86400 * 10 ** 6, out_off)
                f24.update(H=24, M=0, S=0, us=0)
                alt = cm.render(out_n, f24, out_off)
                outs.add(alt if alt is not None else "REFUSE")
        return outs

    # ---- the library composed directly (no DateTimeOperator, no main)
    def compose_point(self, spec):
        from metomi.isodatetime import parsers, dumpers
        utc = spec.get("utc")
        parser = parsers.TimePointParser(
            assumed_time_zone=(0, 0) if utc else None)
        if spec.get("pfmt"):
            p = parser.strptime(spec["text"], spec["pfmt"])
        else:
            p = parser.parse(spec["text"], dump_as_parsed=True)
        if utc:
            p = p.to_utc()
        dparser = parsers.DurationParser()
        for o in spec["offsets"]:
            text = o["text"]
            if text.startswith("-"):
                p = p - dparser.parse(text[1:])
            else:
                p = p + dparser.parse(text.lstrip("+"))
        pf = spec.get("pf")
        if pf is None and spec.get("pfmt"):
            fmt = spec["pfmt"]
        elif pf is None:
            fmt = p.dump_format
        else:
            fmt = pf.get("text") or pf["strf"]
        if "%" in fmt:
            return p.strftime(fmt)
        return dumpers.TimePointDumper().dump(p, fmt)

    # ---- invocation
    def invoke(self, step, step_no):
        from metomi.isodatetime import data
        spec = step["spec"]
        kind = spec["kind"]
        env = step["env"]
        world.set_env(world.ENV_CAL, env.get("cal"))
        world.set_env(world.ENV_REF, env.get("ref"))
        if env.get("cal") is not None:
            self.count("probe.env.cal")
        if env.get("ref") is not None:
            self.count("probe.env.ref")
        cal_opt = spec.get("cal")
        env_garbage = (not cal_opt and env.get("cal") and
                       env["cal"].lower() not in model.BASE)
        mode = model.mode_after_operator(cal_opt, env.get("cal"))
        if mode not in model.BASE:
            mode = "gregorian"
        if self.host_mode != "gregorian" and model.BASE[mode] == "gregorian":
            self.count("probe.leak_check_after_non_gregorian")
        argv = step["argv"]
        if kind == "rec" and argv is None:
            argv = self.build_rec_argv(step, mode)
        before = self.facade.config()
        self.facade.begin_op(step.get("inop", ()))
        with kernel.guarded():
            status, out, err = world.run_cli(
                argv, step.get("stdin") or "", step.get("entry", "argv"))
        if step.get("entry") == "sys.argv":
            self.count("probe.entered_via_sys_argv")
        served = [v for nme, v, _ in self.facade.log if nme == "time"]
        if self.facade.fired:
            self.count("fault.inop_transition")
            self.sig.append("i")
        self.count("probe.kind." + kind)
        self.count("ops")
        # coverage of the input grammar, for the evidence file
        if kind == "bad":
            self.count("cover.bad_slot." + str(spec.get("slot")))
        if kind == "rec":
            self.count("cover.rec_form.%s%s" % (
                spec["form"], "" if spec["reps"] else "_unbounded"))
        if kind == "point":
            self.count("cover.point_src." + spec["src"])
            if spec.get("pfmt"):
                self.count("cover.parse_format")
            for o in spec["offsets"]:
                self.count("cover.offset." + (
                    "alt_notation" if o.get("alt") else
                    "nominal" if o["us"] is None else "exact"))
        for nota in ([spec.get("notation")] if kind in ("point", "rec")
                     else [p["notation"] for p in spec.get("points", [])]):
            if nota:
                self.count("cover.date." + nota["date"] + (
                    "+x" if nota["ystyle"] == "x" else ""))
                self.count("cover.time." + str(nota["time"]))
                self.count("cover.zone." + str(nota["zone"]))
        for flag in ("utc", "cal"):
            if spec.get(flag):
                self.count("probe.opt." + {"cal": "calendar"}.get(flag, flag))
        for k in spec.get("flags", {}):
            self.count("probe." + k)
        if step.get("stdin") is not None:
            self.count("probe.stdin")
        res = [status, out, err[-200:] if status.startswith("exit:") else ""]
        self.results.append([step_no, res])
        self.sig.append("inv:" + kind)
        # what the invocation leaves behind in the host process
        if kind != "version" and not status.startswith("exit:2") and (
                not env_garbage):
            self.host_mode = mode
        elif env_garbage:
            self.host_mode = None
        env_other_case = (not cal_opt and env.get("cal") and
                          env["cal"] not in model.BASE and not env_garbage)
        if env_other_case and not status.startswith("ok"):
            # the documented values are written in lower case; the pinned
            # tree also takes 'Gregorian' -- an implementation that does not
            # is outside what the property states (like a garbage value)
            self.count("skipped.env_other_case_refused")
            self.host_mode = None
            return
        # -- universal: never a traceback for an argument problem
        if status.startswith("raise:") and not env_garbage:
            self.violate("traceback", kind, step_no, argv=argv,
                         stdin=step.get("stdin"), status=status[:300],
                         where=status.rsplit(" @", 1)[-1],
                         slot=spec.get("slot"))
            return
        if env_garbage:
            self.count("skipped.env_garbage")
            return
        if kind == "version":
            return
        if status.startswith("exitmsg:") and not status[8:].strip():
            self.violate("empty_message", kind, step_no, argv=argv)
        # -- calendar actually selected (K6)
        if status == "ok" and kind != "total":
            got_mode = str(data.Calendar.default().mode)
            if model.BASE.get(got_mode.lower()) != model.BASE[mode]:
                self.violate("calendar_selection", kind, step_no, argv=argv,
                             env=env, got=got_mode, want=mode)
        neg_items = [a for a in (argv if step.get("stdin") is None else [])
                     if self.is_neg_year_item(a)]
        if neg_items and kind in ("point", "diff", "rec"):
            self.count("probe.neg_year_item")
            if status.startswith("exit:2"):
                self.violate("neg_year_item_rejected", kind, step_no,
                             argv=argv, item=neg_items[0],
                             status=status, message=err.strip()[-120:])
                return
        if kind == "point":
            self.check_point(step, spec, argv, mode, before, served, status,
                             out, step_no)
        elif kind == "diff":
            self.check_diff(step, spec, argv, mode, before, status, out,
                            step_no, served)
        elif kind == "total":
            self.check_total(spec, argv, status, out, step_no)
        elif kind == "rec":
            self.check_rec(step, spec, argv, mode, status, out, step_no,
                           before)
        elif kind == "bad":
            self.check_bad(step, spec, argv, status, out, step_no)

    @staticmethod
    def is_neg_year_item(arg):
        """A positional date-time written with a negative expanded year."""
        import re
        return bool(re.match(r"^-\d{6}", arg))

    # ---- K1
    def check_point(self, step, spec, argv, mode, before, served, status,
                    out, step_no):
        if spec.get("neg_year_item"):
            self.count("probe.neg_year_item")
        if spec.get("pf"):
            self.count("probe.opt.print_format")
        if spec["src"] in ("ref_opt",):
            self.count("probe.opt.ref")
        if any(o["us"] is None for o in spec["offsets"]):
            self.count("probe.nominal_offset")
        if spec.get("written") and spec["written"].get("H") == 24:
            self.count("probe.hour24")
        if spec.get("written") and spec["written"]["off"] is None and (
                not spec.get("utc")):
            self.count("probe.zoneless_local")
        if spec["src"] in ("now", "noarg", "ref_none") and self.facade.fired:
            self.count("probe.now_across_transition")
        want = self.expect_point_texts(spec, mode, before, served)
        text = out[:-1] if out.endswith("\n") else out
        refused = status.startswith("exitmsg:") or status.startswith("exit:")
        if want is not None:
            if "REFUSE" in want:
                self.count("probe.refusal_expected")
            ok = (refused and "REFUSE" in want) or (
                status == "ok" and text in want)
            if not ok:
                self.violate(
                    "cli_model", "point", step_no, argv=argv,
                    stdin=step.get("stdin"), env=step["env"], mode=mode,
                    got=[status[:200], out], want_any_of=sorted(want),
                    neg_year_item=bool(spec.get("neg_year_item")))
                return
        if spec["src"] in ("now", "noarg", "ref_none") or spec.get(
                "ctime") or (spec.get("pf") or {}).get("fallback") or (
                spec.get("unpadded")):
            return      # the direct composition has no strftime fallback
            #             (nor the lenient strptime one)
        # differential: the library composed directly
        try:
            with kernel.guarded():
                direct = self.compose_point(spec)
            direct_status = "ok"
        except kernel.Hang:
            raise
        except (ValueError, OverflowError):
            direct, direct_status = None, "refuse"
        except Exception as exc:
            direct, direct_status = None, "raise:%s" % type(exc).__name__
        if self.facade.fired:
            return      # the direct composition saw a later configuration
        if direct_status == "ok":
            if not (status == "ok" and text == direct):
                self.violate("cli_vs_library", "point", step_no, argv=argv,
                             stdin=step.get("stdin"), env=step["env"],
                             got=[status[:200], out], library=direct,
                             neg_year_item=bool(spec.get("neg_year_item")))
        elif direct_status == "refuse":
            if not refused:
                self.violate("cli_vs_library", "point", step_no, argv=argv,
                             got=[status[:200], out], library="ValueError")

    # ---- K2
    def check_diff(self, step, spec, argv, mode, before, status, out,
                   step_no, served=()):
        pts = spec["points"]
        now_at = spec.get("via_now")
        utc = spec.get("utc")
        text = out.strip()
        refused = status.startswith("exitmsg:") or status.startswith("exit:")
        if any(p["text"].startswith("-") for p in pts) and (
                not spec.get("via_stdin")):
            neg_item = True
        else:
            neg_item = False
        valid = all(cm.written_valid(p["written"], mode)
                    for i, p in enumerate(pts) if i != now_at)
        if not valid:
            self.count("probe.refusal_expected")
            if not refused:
                self.violate("cli_model", "diff", step_no, argv=argv,
                             got=[status[:200], out],
                             want="non-zero exit with a message")
            return
        if refused:
            self.violate("cli_model", "diff", step_no, argv=argv,
                         stdin=step.get("stdin"), got=[status[:200], out],
                         want="a duration", neg_year_item=neg_item)
            return
        if now_at is not None:
            self.count("probe.diff_with_now")
            if len(served) != 1:
                # (not exactly one clock read: nothing to compare with)
                self.count("skipped.diff_now_reads_%d" % len(served))
                return
        exact = all(o["us"] is not None
                    for o in spec["offsets1"] + spec["offsets2"])
        durs = None
        if not exact:
            self.count("probe.nominal_offset")
            # month / year offsets: the calendar-rule model decides, unless
            # a 24:00 spelling is involved (see expect_point_texts)
            durs = [[cm.parse_designator_duration(o["text"]) if (
                o["us"] is None) else {"neg": False, "Y": 0, "M": 0,
                                       "us": o["us"]} for o in offs]
                    for offs in (spec["offsets1"], spec["offsets2"])]
            if any(d is None for ds in durs for d in ds) or any(
                    p["written"].get("H") == 24
                    for i, p in enumerate(pts) if i != now_at):
                durs = None
            else:
                exact = True
        loc = self.local_offsets(before)
        if exact:
            wants = set()
            import itertools
            one = [0] if utc else loc
            # (each point takes the local zone of the moment it is read: when
            # the zone moves inside the invocation the two may differ)
            for off_pair in itertools.product(one, repeat=2):
                ts = []
                for i, p in enumerate(pts):
                    off_l = off_pair[i]
                    if i == now_at:
                        # the current time: what the clock served, held in
                        # the local zone (UTC with --utc), calendar form
                        off, eff, rep = None, off_l, "cal"
                        t_us = int(round(served[0] * 10 ** 6))
                    else:
                        off = p["written"]["off"]
                        eff = off_l if off is None else off
                        rep = p["written"]["rep"]
                        t_us = cm.written_instant_us(p["written"], mode, eff)
                    if durs is not None:
                        t_us = cm.shift_instant(
                            mode, rep, t_us, 0 if utc else eff, durs[i])
                    else:
                        t_us += sum(o["us"] for o in (
                            spec["offsets1"], spec["offsets2"])[i])
                    ts.append(t_us)
                wants.add(ts[1] - ts[0])
            if spec.get("total"):
                unit = {"H": 3600, "M": 60, "S": 1}[spec["total"].upper()]
                try:
                    got = float(text)
                except ValueError:
                    got = None
                # (the current time is a double: ~2.4e-7 s apart near 2e9 s)
                slack = 3e-6 / unit if now_at is not None else 0.0
                ok = got is not None and any(
                    abs(got - d / 1e6 / unit) <= slack + 1e-9 * max(
                        1.0, abs(d / 1e6 / unit)) for d in wants)
                if not ok:
                    self.violate("cli_model", "diff", step_no, argv=argv,
                                 got=out, want_total_any_of=[
                                     d / 1e6 / unit for d in wants])
            elif spec.get("dpf"):
                # letters y m d h M s are replaced by the components of the
                # duration; what is judged is the LENGTH they add up to (how
                # it is split, e.g. "... 24 0" hours/minutes after an
                # end-of-day operand, is not something the property states)
                neg, nums = cm.split_printed_numbers(text)
                letters = [ch for ch in spec["dpf"] if ch in "ymdhMs"]
                unit = {"d": 86400 * 10 ** 6, "h": 3600 * 10 ** 6,
                        "M": 60 * 10 ** 6, "s": 10 ** 6}   # microseconds
                ok = False
                if len(nums) == len(letters) and all(
                        n == 0 for n, ch in zip(nums, letters) if ch in "ym"):
                    printed = sum(n * unit[ch] for n, ch in zip(nums, letters)
                                  if ch in unit)
                    finest = min(unit[ch] for ch in letters if ch in unit)
                    for d in wants:
                        gap = abs(d) - printed
                        within = (abs(gap) <= 10 if "s" in letters
                                  else -10 <= gap < finest + 10)
                        if within and (neg == (d < 0) or d == 0 or (
                                printed == 0)):
                            ok = True
                if not ok:
                    self.violate("cli_model", "diff", step_no, argv=argv,
                                 got=out, want_us_any_of=sorted(wants),
                                 duration_print_format=spec["dpf"])
                return
            else:
                got = cm.parse_printed_duration(text)
                # sub-second parts are printed from binary floating point
                if got is None or not any(abs(got - d) <= 2 for d in wants):
                    self.violate("cli_model", "diff", step_no, argv=argv,
                                 stdin=step.get("stdin"), env=step["env"],
                                 got=out, got_us=got,
                                 want_us_any_of=sorted(wants))
        # the property's own words: first + d == second, with the library
        # (adding walks year by year: keep to gaps below ~3000 years)
        if spec.get("total") or spec.get("dpf") or self.facade.fired or (
                now_at is not None):
            return
        printed = cm.parse_printed_duration(text)
        if printed is None or abs(printed) > 3000 * 366 * 86400 * 10 ** 6:
            self.count("skipped.first_plus_d_far")
            return
        try:
            with kernel.guarded():
                ok, detail = self.first_plus_d(spec, text, mode)
        except kernel.Hang:
            raise
        except Exception as exc:
            ok, detail = False, "raise:%s:%s" % (type(exc).__name__, exc)
        if not ok:
            self.violate("first_plus_d", "diff", step_no, argv=argv,
                         got=out, detail=detail)

    def first_plus_d(self, spec, text, mode):
        from metomi.isodatetime import parsers
        utc = spec.get("utc")
        parser = parsers.TimePointParser(
            assumed_time_zone=(0, 0) if utc else None)
        dparser = parsers.DurationParser()
        pts = []
        for p, offs in zip(spec["points"],
                           (spec["offsets1"], spec["offsets2"])):
            tp = parser.parse(p["text"])
            if utc:
                tp = tp.to_utc()    # --utc converts first, then shifts
            for o in offs:
                t = o["text"]
                tp = tp - dparser.parse(t[1:]) if t.startswith("-") else (
                    tp + dparser.parse(t.lstrip("+")))
            pts.append(tp)
        if text.startswith("-"):
            d = dparser.parse(text[1:]) * -1
        else:
            d = dparser.parse(text)
        res = pts[0] + d
        if res == pts[1]:
            return True, ""
        # decimal-hour/minute points carry binary floating point noise:
        # compare in UTC, field by field, to a millisecond
        # (and the 24:00 spelling of a day's end is the next day's 00:00)
        a, b = res.to_utc(), pts[1].to_utc()
        secs = [model.to_daynum(mode, *x.get_calendar_date()) * 86400 +
                x.get_second_of_day() for x in (a, b)]
        return abs(secs[0] - secs[1]) < 1e-3, (
            "first + %s = %s/%s, second = %s/%s" % (
                text, a.get_calendar_date(), a.get_second_of_day(),
                b.get_calendar_date(), b.get_second_of_day()))

    # ---- K3
    def check_total(self, spec, argv, status, out, step_no):
        unit = {"H": 3600, "M": 60, "S": 1}[spec["unit"].upper()]
        want = spec["us"] / 1e6 / unit
        try:
            got = float(out.strip())
        except ValueError:
            got = None
        if status != "ok" or got is None or abs(got - want) > 1e-9 * max(
                1.0, abs(want)):
            self.violate("cli_model", "total", step_no, argv=argv,
                         got=[status[:200], out], want=want)

    # ---- K4
    def build_rec_argv(self, step, mode):
        spec = step["spec"]
        n, w = spec["notation"], spec["written"]
        if not cm.written_valid(w, mode):
            second = written_text(n, w)
        else:
            t = cm.written_instant_us(w, mode, w["off"])
            f = cm.civil_fields(mode, t + spec["second_delta_us"], w["off"])
            second = cm.render(n, f, w["off"])
            if second is None:
                # not writable in this notation (year beyond 9999): the
                # second point repeats the first
                second = written_text(n, w)
                f = cm.civil_fields(mode, t, w["off"])
            # the interval is what the second point *as written* says
            shown = dict(f, rep=w["rep"], y=f["wy"] if w["rep"] == "week"
                         else f["y"])
            if n["time"] in ("hms", "hm", "h"):
                shown["us"] = 0
            if n["time"] in ("hm", "h"):
                shown["S"] = 0
            if n["time"] == "h":
                shown["M"] = 0
            step["form1_interval_us"] = cm.written_instant_us(
                shown, mode, w["off"]) - t
        rp = "R%s" % ("" if spec["reps"] is None else spec["reps"])
        spec = dict(spec, text="%s/%s/%s" % (rp, written_text(n, w), second))
        step["spec_text"] = spec["text"]
        argv = [spec["text"]]
        if step.get("rec_stdin"):
            step["stdin"] = spec["text"] + "\n"
            argv = ["-"]
        for g in step["rec_groups"]:
            argv += g
        return argv

    def rec_point_text(self, p, pf, mode):
        """One recurrence point as the library prints it: str(), its own
        strftime, its dumper -- or, for directives the library leaves to the
        standard library, the model's rendering of the point's fields."""
        if pf is None:
            return str(p)
        if "notation" in pf:
            from metomi.isodatetime import dumpers
            return dumpers.TimePointDumper().dump(p, pf["text"])
        if not pf.get("fallback"):
            return p.strftime(pf["strf"])
        y, m, d = p.to_calendar_date().get_calendar_date()
        H, M, S = p.get_hour_minute_second()
        tz = p.time_zone
        off = tz.hours * 60 + tz.minutes
        w = {"rep": "cal", "y": y, "m": m, "d": d, "H": int(H), "M": int(M),
             "S": int(S), "us": int(round((S - int(S)) * 10 ** 6))}
        t_us = cm.written_instant_us(w, mode, off)
        return cm.render_strf(pf["strf"], cm.civil_fields(mode, t_us, off),
                              off, t_us)

    def check_rec(self, step, spec, argv, mode, status, out, step_no,
                  before=None):
        from metomi.isodatetime import parsers
        text = step.get("spec_text") or spec["text"]
        refused = status.startswith("exitmsg:") or status.startswith("exit:")
        n, w = spec["notation"], spec["written"]
        maxn = spec.get("max", 10)
        lines = [ln for ln in out.split("\n")]
        if lines and lines[-1] == "":
            lines = lines[:-1]
        if lines == [""]:
            lines = []          # no point printed
        if not cm.written_valid(w, mode):
            self.count("probe.refusal_expected")
            if not refused:
                self.violate("cli_model", "rec", step_no, argv=argv,
                             got=[status[:200], out],
                             want="non-zero exit with a message")
            return
        # library iterated directly
        utc = spec.get("utc")
        try:
            with kernel.guarded():
                parser = parsers.TimePointParser(
                    assumed_time_zone=(0, 0) if utc else None)
                rec = parsers.TimeRecurrenceParser(parser).parse(text)
                direct = []
                for i, p in enumerate(rec):
                    if i >= max(maxn, 0):
                        break
                    direct.append(self.rec_point_text(p, spec.get("pf"),
                                                      mode))
            dstatus = "ok"
        except kernel.Hang:
            raise
        except (ValueError, OverflowError):
            dstatus = "refuse"
        except Exception as exc:
            dstatus = "raise:%s" % type(exc).__name__
        if dstatus == "refuse":
            if not refused:
                self.violate("cli_vs_library", "rec", step_no, argv=argv,
                             got=[status[:200], out], library="ValueError")
            return
        if dstatus != "ok":
            self.count("skipped.rec_direct_" + dstatus.replace(":", "_"))
            return
        if refused and maxn <= 0:
            # nothing is to be printed; whether a formatting problem of the
            # (unprinted) first point is still reported is not something the
            # property states
            self.count("skipped.refusal_at_nonpositive_max")
            return
        if refused:
            self.violate("cli_vs_library", "rec", step_no, argv=argv,
                         got=[status[:200], out], library=direct[:3])
            return
        if lines != direct:
            self.violate(
                "cli_vs_library", "rec", step_no, argv=argv, max=maxn,
                got_lines=lines[:12], library_first_n=direct[:12],
                max_nonpositive=maxn <= 0)
            return
        # model: exact intervals give the instants start + k*d
        ius = spec.get("interval_us")
        if spec["form"] == 1:
            ius = step.get("form1_interval_us")
        nominal = None
        backwards = False
        if ius is None and spec["form"] == 3 and spec["interval_text"] in (
                "P1M", "P3M", "P1Y"):
            # each point is the previous one plus the interval, by the
            # calendar rules (single-month steps clamp)
            nominal = cm.parse_designator_duration(spec["interval_text"])
        elif ius is None and spec["form"] == 4 and spec["reps"] is None and (
                spec["interval_text"] in ("P1M", "P3M", "P1Y")):
            # counting back from the end point without a repetition count:
            # each point is the previous one MINUS the interval (help 4.2,
            # R/P1Y/2020), however many points are asked for
            nominal = cm.parse_designator_duration(
                "-" + spec["interval_text"])
            backwards = nominal is not None
        pf = spec.get("pf")
        if (ius is None and nominal is None) or n["time"] is None:
            return
        if pf is not None and ("notation" not in pf or w["us"] or (
                (ius or 0) % 10 ** 6) or (
                pf["notation"]["date"] in ("y", "c") and w["rep"] == "week")):
            return
        if ius == 0 and nominal is None:
            return
        if n["zone"] is not None:
            zones = [w["off"]]
        elif before is None:
            return
        else:
            # points written without a zone: UTC under --utc, the local zone
            # otherwise (the offsets the world presented during the call)
            self.count("probe.rec_zoneless_points")
            zones = [0] if spec.get("utc") else self.local_offsets(before)
        reps = spec["reps"]
        wants = []
        for zone_off in zones:
            off = zone_off
            t0 = cm.written_instant_us(w, mode, off)
            step_us = ius
            if backwards:
                self.count("probe.rec_backwards_nominal")
            if nominal is not None:
                count = max(maxn, 0) if reps is None else min(
                    reps, max(maxn, 0))
                ts = []
                t = t0
                for _ in range(count):
                    ts.append(t)
                    t = cm.shift_instant(mode, w["rep"], t, off, [nominal])
                step_us = 0
            elif spec["form"] == 4:
                if reps is None:
                    ts = [t0 - k * step_us for k in range(max(maxn, 0))]
                else:
                    first = t0 - (reps - 1) * step_us
                    ts = [first + k * step_us
                          for k in range(min(reps, max(maxn, 0)))]
            else:
                count = max(maxn, 0) if reps is None else min(
                    reps, max(maxn, 0))
                ts = [t0 + k * step_us for k in range(count)]
            out_n = {"date": cm.rep_of(n) + "_ext", "ystyle": n["ystyle"],
                     "time": "hms_dec" if (w["us"] or (step_us or 0) % 10 ** 6)
                     else "hms",
                     "dec": ",", "zone": "Z" if off == 0 else "hhmm"}
            if pf is not None:
                self.count("probe.rec_iso_print_format")
                out_n = pf["notation"]
                if out_n["zone"] == "Z":
                    off = 0
                if pf.get("lit_off") is not None:
                    off = pf["lit_off"]
            want = []
            for t in ts:
                f = cm.civil_fields(mode, t, off)
                if out_n["time"] == "hms_dec" and f["us"] == 0:
                    txt = cm.render(dict(out_n, time="hms"), f, off)
                else:
                    txt = cm.render(out_n, f, off)
                want.append(txt)
            if None in want:
                return
            wants.append(want)
        if lines not in wants:
            want = wants[0]
            self.violate("cli_model", "rec", step_no, argv=argv,
                         got_lines=lines[:12], want_lines=want[:12],
                         form=spec["form"],
                         fractional_anchor=bool(w["us"]),
                         zoneless_points=n["zone"] is None,
                         only_last_point_missing=(
                             len(want) > 1 and lines == want[:-1]
                             and len(want) == (spec["reps"] or 0)))

    # ---- K5
    def check_bad(self, step, spec, argv, status, out, step_no):
        # tracebacks were handled universally; a refusal must carry a message
        if status == "exit0":
            self.violate("silent_exit", "bad", step_no, argv=argv)
        if spec.get("slot") == "item" and status == "ok":
            # the lone date-time item was damaged: if the library's own
            # parser refuses it, so must the command line
            from metomi.isodatetime import parsers
            item = argv[0]
            try:
                with kernel.guarded():
                    parsers.TimePointParser(
                        assumed_time_zone=(0, 0)).parse(item)
                return
            except kernel.Hang:
                raise
            except ValueError:
                pass
            except Exception:
                return
            if item.startswith(("R", "-")) or item in ("now", "ref"):
                return      # a recurrence, or something argparse reads as
                #             an option rather than as the item
            self.violate("accepted_unparsable", "bad", step_no, argv=argv,
                         got=[status, out])

    # ---- host actor
    def host(self, step):
        from metomi.isodatetime import data, parsers
        act = step["act"]
        self.count("fault.host_" + act)
        self.sig.append("h:" + act)
        with kernel.guarded():
            if act == "set_mode":
                data.Calendar.default().set_mode(step["sp"])
                self.host_mode = step["sp"]
            elif act == "use":
                p = parsers.TimePointParser(assumed_time_zone=(0, 0)).parse(
                    "2000-02-28T00:00:00Z")
                str(p + parsers.DurationParser().parse("P1M2D"))
                p.to_week_date().to_ordinal_date()
            elif act == "dto":
                # an operator of the host's own, with options of its own
                from metomi.isodatetime.datetimeoper import DateTimeOperator
                oper = DateTimeOperator(
                    parse_format="%d/%m/%Y %H:%M", utc_mode=True,
                    calendar_mode=step["sp"],
                    ref_point_str="1999-12-31T23:59:59+05:30")
                try:
                    oper.process_time_point_str("ref", ["P1M"], "CCYYDDDThhZ")
                    oper.process_time_point_str("28/02/2001 12:30", ["-PT1H"])
                    oper.diff_time_point_strs("ref", "2000-03-01T00Z")
                    list(oper.iter_recurrence_str("R2/2000-01-31T00Z/P1M",
                                                  "%d %b"))
                except Exception:
                    pass
                self.host_mode = step["sp"]
            elif act == "scratch_cal":
                cal = data.Calendar()
                cal.set_mode(step["sp"])
                if cal is data.Calendar.default():
                    self.host_mode = step["sp"]
            else:
                world.clear_caches()

    def run(self):
        trace = self.trace
        clock = world.SimClock(trace["start_us"])
        self.facade = world.TimeFacade(clock, trace["zones"], trace["cur"],
                                       trace["isdst"])
        world.install_time(self.facade)
        for step_no, step in enumerate(trace["steps"]):
            if step["k"] == "pert":
                self.facade.begin_op()
                self.facade.apply(step["act"])
                self.count("fault." + step["act"][0])
                self.sig.append("p:" + step["act"][0])
            elif step["k"] == "host":
                self.facade.begin_op()
                self.host(step)
            else:
                try:
                    self.invoke(step, step_no)
                except kernel.Hang:
                    self.violate("hang", step["spec"]["kind"], step_no,
                                 argv=step.get("argv"))
                self.states.add("%s|%s" % (
                    self.facade.config(), self.host_mode))
        self.sim_time_us = clock.moved_us
        return self


def execute(trace):
    kernel.import_library()
    if trace.get("alarm"):
        kernel.CALL_ALARM_S = trace["alarm"]
    sim = Sim(trace).run()
    return {"results": sim.results, "violations": sim.violations,
            "counters": sim.counters, "sig": sim.sig,
            "states": sorted(sim.states), "sim_time_us": sim.sim_time_us}


def gen_hostzone(rng, index):
    """A random history run in an interpreter that was STARTED in a zone
    that is not UTC (the library imported under it); the simulated world
    starts in the same zone, moves away and comes back."""
    trace = gen_random(rng, index)
    west = kernel.HOST_ZONES_WEST[index % len(kernel.HOST_ZONES_WEST)]
    zones = [list(z) for z in trace["zones"]]
    zones[0] = [west, west, 0]
    steps = []
    dst_rule = index % 4 == 3
    if dst_rule:
        # a zone that defines daylight saving (standard +01:00, daylight
        # +02:00, in effect February to November): the library is imported
        # under a definition with altzone != timezone, and the flag then
        # flips while the definition stays the same
        zones[0] = [-3600, -7200, 1]
    for i, step in enumerate(trace["steps"]):
        steps.append(step)
        if i % 5 == 4:
            steps.append({"k": "pert", "act": ["tzset", 0]})
            steps.append({"k": "pert", "act": [
                "dst", (i // 5) % 2 if dst_rule else 0]})
    trace.update(kind="hostzone", zones=zones, cur=0, isdst=0,
                 host_tz=kernel.posix_tz(
                     west, ["XST", "UTC", "GMT"][index % 3]), steps=steps)
    if dst_rule:
        trace.update(host_tz="XST-1XDT-2,J32/0,J334/0", host_dst_rule=True)
    return trace


def check_trace_full(trace):
    if trace.get("host_tz"):
        res = kernel.run_in_host_zone(PROP, trace)
    else:
        res = kernel.in_fresh_fork(
            execute, (trace,), timeout=1500 if trace.get("alarm") else 300)
    if any(v.get("class") == "hang" for v in res["violations"]) and (
            not trace.get("alarm")):
        # the per-call alarm is the one place real time enters: a call that
        # timed out is decided again with a six-fold alarm before it counts
        return check_trace_full(dict(trace, alarm=6 * kernel.CALL_ALARM_S))
    counters = dict(res["counters"])
    counters["simulated_time_covered_s"] = res["sim_time_us"] // 10 ** 6
    dig = kernel.digest([res["results"], res["violations"]])
    sig = hashlib.sha256("|".join(res["sig"]).encode()).hexdigest()[:16]
    nontrivial = any(s.startswith(("p:", "h:", "i")) for s in res["sig"])
    return res["violations"], {
        "counters": counters, "digest": dig, "sig": sig,
        "nontrivial": nontrivial, "states": res["states"]}


def check_trace(trace):
    return check_trace_full(trace)[0]


def make_trace(job):
    kind, seed, index = job
    rng = kernel.run_rng(PROP, seed, index, kind)
    if kind == "directed":
        return gen_directed(rng, index)
    if kind == "hostzone":
        return gen_hostzone(rng, index)
    return gen_random(rng, index)


def abbreviate(trace, n=6):
    t = dict(trace)
    t["steps"] = trace["steps"][:n]
    t["steps_total"] = len(trace["steps"])
    return t


def run_job(job):
    trace = make_trace(job)
    violations, info = check_trace_full(trace)
    res = {"index": "%s:%s" % (job[0], job[2]), "counters": info["counters"],
           "digest": info["digest"], "sets": {"states": info["states"]},
           "violations": [dict(v, job=list(job)) for v in violations]}
    res["counters"]["runs." + job[0]] = 1
    if info["nontrivial"]:
        res["sets"]["sigs"] = [info["sig"]]
    if job[2] < 2:
        res["sample"] = abbreviate(trace)
    return res


def prune(trace):
    return trace


def shrink_candidates(trace):
    for i, step in enumerate(trace["steps"]):
        if step["k"] == "inv":
            if step.get("inop"):
                s = dict(step)
                s.pop("inop")
                yield replace_step(trace, i, s)
            if step["env"].get("cal") or step["env"].get("ref"):
                if step["spec"].get("src") != "ref_env":
                    s = dict(step)
                    s["env"] = {"cal": None, "ref": None}
                    yield replace_step(trace, i, s)
    if trace["isdst"]:
        yield dict(trace, isdst=0)
    if trace["zones"] != [[0, 0, 0]] * len(trace["zones"]):
        yield dict(trace, zones=[[0, 0, 0]] * len(trace["zones"]))


def replace_step(trace, i, step):
    t = dict(trace)
    t["steps"] = trace["steps"][:i] + [step] + trace["steps"][i + 1:]
    return t


def jobs_for(tier, seed):
    n_chunks = (len(all_notations()) + NOTATIONS_PER_TRACE - 1) // (
        NOTATIONS_PER_TRACE)
    n_dir = n_chunks * (2 if tier == "quick" else 16)
    n = 2500 if tier == "quick" else 80000
    return [("hostzone", seed, i) for i in range(
        20 if tier == "quick" else 600)] + [
        ("directed", seed, i) for i in range(n_dir)] + [
        ("random", seed, i) for i in range(n)]


def extra_coverage(agg):
    return {"simulated_time_covered_s":
            agg.counters.get("simulated_time_covered_s", 0)}


RULE = (
    "each case is one seeded history of 10-60 steps: CLI invocations "
    "(date-time with offsets / two date-times / duration total / recurrence "
    "/ malformed argument), each with its own argv spelling, environment "
    "variables and stdin, interleaved with host-process library use "
    "(calendar switches, cache clears) and clock/zone perturbations between "
    "and inside invocations; evaluations = invocations checked; a case is "
    "non-trivial when a host action or perturbation fired, and distinct by "
    "the SHA-256 of its sequence of invocation kinds, host actions and "
    "perturbation kinds")

ASSUMPTIONS = [
    "the CLI is run in-process as main(argv) with stdin/stdout/stderr "
    "swapped for in-memory streams",
    "model-side rendering covers exact offsets and notation-valued print "
    "formats; month/year offsets and strftime print formats are decided by "
    "comparing with the library composed directly (parser, +/-, dumper)",
    "decimal hour/minute notations are only shifted by multiples of a "
    "quarter unit so that binary floating point is exact",
    "a garbage ISODATETIMECALENDAR value is outside the property's wording "
    "(it is not an argument): such invocations are not judged",
    "sampling, not enumeration: a clean batch is evidence, not proof",
]


def crosscheck(seed, n=240, workers=16):
    """Thorough tier: bound the 'CLI process boundary = in-process main(argv)'
    stub.  Clock- and zone-independent invocations (explicit zone or --utc,
    no now/ref-less forms) are repeated as real
    `python -m metomi.isodatetime.main` subprocesses and compared."""
    import os
    import subprocess
    import sys
    picked = []
    i = 0
    while len(picked) < n and i < 50 * n:
        trace = make_trace(("random", seed, i))
        i += 1
        for step in trace["steps"]:
            if step["k"] != "inv" or step.get("argv") is None:
                continue
            spec = step["spec"]
            if spec["kind"] not in ("point", "diff", "total", "bad"):
                continue
            if spec["kind"] == "point" and (
                    spec["src"] in ("now", "noarg", "ref_none") or (
                        spec["written"]["off"] is None
                        and not spec.get("utc"))):
                continue
            if spec["kind"] == "diff" and spec.get("via_now") is not None:
                continue        # clock-dependent
            if spec["kind"] == "diff" and any(
                    p["written"]["off"] is None for p in spec["points"]) and (
                    not spec.get("utc")):
                continue
            if spec["kind"] == "bad" and (
                    not spec.get("utc") or spec.get("slot") in (
                        "stdin", "ref", "item", "item1", "item2") or any(
                        a in ("now", "ref", "-") for a in step["argv"])):
                continue        # a damaged item may leave "now": clock
            picked.append(step)
            break

    def one(step):
        def in_process():
            kernel.import_library()
            world.fixed_utc_world()
            world.set_env(world.ENV_CAL, step["env"].get("cal"))
            world.set_env(world.ENV_REF, step["env"].get("ref"))
            with kernel.guarded():
                return world.run_cli(step["argv"], step.get("stdin") or "",
                                     "sys.argv")
        status, out, err = kernel.in_fresh_fork(in_process)
        env = dict(os.environ, PYTHONPATH=kernel.REPO, TZ="UTC",
                   PYTHONDONTWRITEBYTECODE="1")
        for name, key in ((world.ENV_CAL, "cal"), (world.ENV_REF, "ref")):
            env.pop(name, None)
            if step["env"].get(key) is not None:
                env[name] = step["env"][key]
        proc = subprocess.run(
            # the text of the generated console script
            [sys.executable, "-c", "import sys; from metomi.isodatetime.main "
             "import main; sys.exit(main())"] + step["argv"],
            input=step.get("stdin") or "", capture_output=True, text=True,
            timeout=120, env=env, cwd="/")
        if status == "ok" and out.startswith("2000-01-01T00:00:0") and (
                proc.returncode == 0 and proc.stdout != out):
            # the simulated clock's start: the invocation printed "now"
            return {"index": 0, "counters": {"clock_dependent": 1},
                    "violations": []}
        if status == "ok":
            same = proc.returncode == 0 and proc.stdout == out
        elif status.startswith("exitmsg:"):
            same = proc.returncode == 1 and status[8:].strip() in proc.stderr
        elif status.startswith("exit:"):
            same = proc.returncode == int(status[5:])
        else:   # raise:<type>: a traceback also in the real process
            same = proc.returncode == 1 and "Traceback" in proc.stderr
        bad = [] if same else [{
            "argv": step["argv"], "in_process": [status[:200], out],
            "subprocess": [proc.returncode, proc.stdout,
                           proc.stderr[-200:]]}]
        return {"index": 0, "counters": {"compared": 1}, "violations": bad}

    class _W(object):
        run_job = staticmethod(one)
    agg = kernel.run_batch(_W, picked, workers, 3600)
    if agg.harness_errors:
        raise kernel.HarnessError("; ".join(agg.harness_errors[:3]))
    return {"real_subprocess_crosschecks": agg.counters.get("compared", 0),
            "real_subprocess_mismatches": agg.violations}
