"""Simulation kernel: seeded runs, fork isolation, parallel workers,
aggregation, delta-debugging minimiser, replay files, evidence.

The orchestrating process imports the library under test and then never
calls into it: every run, and every "fresh process" reference run, executes in
a child forked from that pristine state.
"""
import hashlib
import json
import os
import pickle
import random
import select
import signal
import sys
import time as _realtime
import traceback

VERIF_DIR = os.path.dirname(os.path.dirname(os.path.abspath(__file__)))
REPO = os.environ.get("VERIF_REPO", "/repo")

_real_monotonic = _realtime.monotonic   # captured before any facade exists
_real_time = _realtime.time


class HarnessError(Exception):
    """The machinery (not the library) failed: exit status 2, never 0/1."""


class Hang(BaseException):
    """A library call exceeded the per-call real-time alarm."""


# --------------------------------------------------------------------------
# import of the library under test

def import_library():
    """Import metomi.isodatetime from REPO's working tree (never from an
    installed copy) without writing bytecode into it."""
    sys.dont_write_bytecode = True
    if sys.path[0] != REPO:
        sys.path.insert(0, REPO)
    import metomi.isodatetime  # noqa
    import metomi.isodatetime.data  # noqa
    import metomi.isodatetime.datetimeoper  # noqa
    import metomi.isodatetime.dumpers  # noqa
    import metomi.isodatetime.main  # noqa
    import metomi.isodatetime.parsers  # noqa
    import metomi.isodatetime.timezone  # noqa
    path = os.path.realpath(metomi.isodatetime.__file__)
    if not path.startswith(os.path.realpath(REPO) + os.sep):
        raise HarnessError(
            "library imported from %s, not from %s" % (path, REPO))
    return metomi.isodatetime


# --------------------------------------------------------------------------
# seeded PRNG: one integer decides everything

def run_rng(prop, seed, index, salt=""):
    """PRNG of run `index` of property `prop` under base seed `seed`.
    String seeding goes through SHA-512: independent of PYTHONHASHSEED."""
    return random.Random("%s:%s:%s:%s" % (prop, seed, index, salt))


def digest(obj):
    return hashlib.sha256(
        json.dumps(obj, sort_keys=True, default=str).encode()).hexdigest()


# --------------------------------------------------------------------------
# per-call hang guard (the only place real time enters a run)

CALL_ALARM_S = float(os.environ.get("VERIF_CALL_ALARM", "8"))


def _on_alarm(signum, frame):
    raise Hang()


def arm_alarm():
    signal.signal(signal.SIGALRM, _on_alarm)


class guarded(object):
    """with guarded(): <library call>  -- raises Hang after CALL_ALARM_S."""

    def __enter__(self):
        signal.setitimer(signal.ITIMER_REAL, CALL_ALARM_S)

    def __exit__(self, *exc):
        signal.setitimer(signal.ITIMER_REAL, 0)
        return False


# --------------------------------------------------------------------------
# fork helpers

def _read_all(fd_map, deadline):
    """Read every fd in fd_map {fd: bytearray} to EOF, before deadline."""
    open_fds = set(fd_map)
    while open_fds:
        left = deadline - _real_monotonic()
        if left <= 0:
            return open_fds
        ready, _, _ = select.select(list(open_fds), [], [], min(left, 1.0))
        for fd in ready:
            chunk = os.read(fd, 1 << 16)
            if chunk:
                fd_map[fd] += chunk
            else:
                open_fds.discard(fd)
    return open_fds


def in_fresh_fork(fn, args=(), timeout=300.0):
    """Run fn(*args) in a child forked from this (pristine) process and
    return its result.  Raises HarnessError on crash / timeout."""
    sys.stdout.flush()
    sys.stderr.flush()
    rfd, wfd = os.pipe()
    pid = os.fork()
    if pid == 0:
        code = 0
        try:
            os.close(rfd)
            arm_alarm()
            try:
                payload = pickle.dumps(("ok", fn(*args)), 4)
            except BaseException:
                payload = pickle.dumps(("err", traceback.format_exc()), 4)
            with os.fdopen(wfd, "wb") as out:
                out.write(payload)
        except BaseException:
            code = 3
        finally:
            os._exit(code)
    os.close(wfd)
    buf = {rfd: bytearray()}
    late = _read_all(buf, _real_monotonic() + timeout)
    os.close(rfd)
    if late:
        try:
            os.kill(pid, signal.SIGKILL)
        except OSError:
            pass
        os.waitpid(pid, 0)
        raise HarnessError("child exceeded %.0fs wall deadline in %s" % (
            timeout, getattr(fn, "__name__", fn)))
    _, status = os.waitpid(pid, 0)
    if status != 0 or not buf[rfd]:
        raise HarnessError("child died (status %s) in %s" % (
            status, getattr(fn, "__name__", fn)))
    kind, value = pickle.loads(bytes(buf[rfd]))
    if kind == "err":
        raise HarnessError("child raised:\n" + value)
    return value


def parallel_jobs(fn, jobs, workers, timeout):
    """Run fn(job_list) -> result in `workers` forked worker processes, each
    getting jobs[w::workers]; returns the list of worker results.  The
    workers are forks of the pristine orchestrator and must themselves only
    touch the library inside in_fresh_fork children."""
    sys.stdout.flush()
    sys.stderr.flush()
    workers = max(1, min(workers, len(jobs)))
    procs = []
    for w in range(workers):
        rfd, wfd = os.pipe()
        pid = os.fork()
        if pid == 0:
            code = 0
            try:
                os.close(rfd)
                for other_rfd, _ in procs:
                    os.close(other_rfd)
                try:
                    payload = pickle.dumps(("ok", fn(jobs[w::workers])), 4)
                except BaseException:
                    payload = pickle.dumps(("err", traceback.format_exc()), 4)
                with os.fdopen(wfd, "wb") as out:
                    out.write(payload)
            except BaseException:
                code = 3
            finally:
                os._exit(code)
        os.close(wfd)
        procs.append((rfd, pid))
    bufs = {rfd: bytearray() for rfd, _ in procs}
    late = _read_all(bufs, _real_monotonic() + timeout)
    results = []
    errors = []
    for rfd, pid in procs:
        os.close(rfd)
        if rfd in late:
            try:
                os.kill(pid, signal.SIGKILL)
            except OSError:
                pass
            os.waitpid(pid, 0)
            errors.append("worker %d exceeded %.0fs wall deadline" % (
                pid, timeout))
            continue
        _, status = os.waitpid(pid, 0)
        if status != 0 or not bufs[rfd]:
            errors.append("worker %d died (status %s)" % (pid, status))
            continue
        kind, value = pickle.loads(bytes(bufs[rfd]))
        if kind == "err":
            errors.append("worker raised:\n" + value)
        else:
            results.append(value)
    if errors:
        raise HarnessError("; ".join(errors))
    return results


# --------------------------------------------------------------------------
# aggregation of run results

class Agg(object):
    """Mergeable summary of many runs."""

    MAX_VIOLATIONS = 40
    MAX_SAMPLES = 3

    def __init__(self):
        self.runs = 0
        self.counters = {}
        self.sets = {}
        self.violations = []
        self.n_violations = 0
        self.samples = []
        self.harness_errors = []
        self.digests = {}
        self.known_hits = {}
        self.known_examples = {}
        self.n_unknown = 0

    def count(self, key, n=1):
        self.counters[key] = self.counters.get(key, 0) + n

    def add_set(self, key, item):
        self.sets.setdefault(key, set()).add(item)

    def add_result(self, res, findings=()):
        """res: dict(counters, sets, violations, sample, digest, index).
        Violations matching a listed known finding are counted per finding
        (one example kept); all others are kept, up to MAX_VIOLATIONS."""
        self.runs += 1
        for k, v in res.get("counters", {}).items():
            self.count(k, v)
        for k, items in res.get("sets", {}).items():
            self.sets.setdefault(k, set()).update(items)
        for v in res.get("violations", []):
            self.n_violations += 1
            for i, f in enumerate(findings):
                if matches_finding(v, f):
                    self.known_hits[i] = self.known_hits.get(i, 0) + 1
                    self.known_examples.setdefault(i, v)
                    break
            else:
                self.n_unknown += 1
                if len(self.violations) < self.MAX_VIOLATIONS:
                    self.violations.append(v)
        if res.get("sample") is not None and (
                len(self.samples) < self.MAX_SAMPLES):
            self.samples.append(res["sample"])
        if "digest" in res and res.get("keep_digest"):
            self.digests[res["index"]] = res["digest"]

    def merge(self, other):
        self.runs += other.runs
        for k, v in other.counters.items():
            self.count(k, v)
        for k, items in other.sets.items():
            self.sets.setdefault(k, set()).update(items)
        self.n_violations += other.n_violations
        for v in other.violations:
            if len(self.violations) < self.MAX_VIOLATIONS:
                self.violations.append(v)
        for s in other.samples:
            if len(self.samples) < self.MAX_SAMPLES:
                self.samples.append(s)
        self.harness_errors.extend(other.harness_errors)
        self.digests.update(other.digests)


def run_batch(workload, jobs, workers, timeout, keep_digests=False,
              job_timeout=3000.0, stop_on_violation=False, findings=()):
    """Run workload.run_job(job) for every job, each in its own child forked
    from the pristine orchestrator, at most `workers` at a time (dynamic
    scheduling: results do not depend on the worker count).  run_job returns a
    result dict as for Agg.add_result."""
    sys.stdout.flush()
    sys.stderr.flush()
    total = Agg()
    t_end = _real_monotonic() + timeout
    pending = list(reversed(jobs))
    active = {}   # rfd -> [pid, job, buf, deadline]

    def launch(job):
        rfd, wfd = os.pipe()
        pid = os.fork()
        if pid == 0:
            code = 0
            try:
                os.close(rfd)
                for other in active:
                    os.close(other)
                try:
                    payload = pickle.dumps(("ok", workload.run_job(job)), 4)
                except HarnessError as exc:
                    payload = pickle.dumps(("harness", str(exc)), 4)
                except BaseException:
                    payload = pickle.dumps(("err", traceback.format_exc()), 4)
                with os.fdopen(wfd, "wb") as out:
                    out.write(payload)
            except BaseException:
                code = 3
            finally:
                os._exit(code)
        os.close(wfd)
        active[rfd] = [pid, job, bytearray(), _real_monotonic() + job_timeout]

    def finish(rfd, killed=False):
        pid, job, buf, _ = active.pop(rfd)
        os.close(rfd)
        if killed:
            try:
                os.kill(pid, signal.SIGKILL)
            except OSError:
                pass
        _, status = os.waitpid(pid, 0)
        if killed:
            total.harness_errors.append(
                "%r: run exceeded its wall deadline" % (job,))
            return
        if status != 0 or not buf:
            total.harness_errors.append(
                "%r: run child died (status %s)" % (job, status))
            return
        kind, value = pickle.loads(bytes(buf))
        if kind == "ok":
            if keep_digests:
                value["keep_digest"] = True
            total.add_result(value, findings)
        else:
            total.harness_errors.append("%r: %s" % (job, value))

    while pending or active:
        if stop_on_violation and total.n_unknown:
            pending = []
        while pending and len(active) < workers:
            launch(pending.pop())
        ready, _, _ = select.select(list(active), [], [], 1.0)
        for rfd in ready:
            chunk = os.read(rfd, 1 << 16)
            if chunk:
                active[rfd][2] += chunk
            else:
                finish(rfd)
        now = _real_monotonic()
        for rfd in [r for r, a in active.items() if a[3] < now]:
            finish(rfd, killed=True)
        if now > t_end:
            for rfd in list(active):
                finish(rfd, killed=True)
            total.harness_errors.append(
                "batch exceeded %.0fs wall deadline with %d job(s) left" % (
                    timeout, len(pending)))
            break
    return total


# --------------------------------------------------------------------------
# minimisation (ddmin over the step list, then per-step shrinking)

def violation_key(v):
    return (v.get("class"), v.get("opkind"))


def minimise(workload, trace, key, budget_s=240.0, hint_step=None):
    """Shrink `trace` while workload.check_trace still reports a violation
    with the same key.  Every candidate is executed in fresh forks."""
    t_end = _real_monotonic() + budget_s
    tests = [0]

    def fails(cand):
        tests[0] += 1
        cand = workload.prune(cand)
        try:
            vs = workload.check_trace(cand)
        except HarnessError:
            return None
        for v in vs:
            if violation_key(v) == key:
                return cand
        return None

    cur = workload.prune(trace)
    # 0. nothing after the violating step is needed (runs are deterministic):
    #    one test cuts a long history down to its prefix
    if isinstance(hint_step, int) and 0 <= hint_step < len(
            trace["steps"]) - 1:
        cand = dict(trace)
        cand["steps"] = trace["steps"][:hint_step + 1]
        got = fails(cand)
        if got is not None:
            cur = got
    # 1. ddmin on steps
    n = 2
    while len(cur["steps"]) >= 2 and _real_monotonic() < t_end:
        steps = cur["steps"]
        chunk = max(1, len(steps) // n)
        reduced = False
        for start in range(0, len(steps), chunk):
            if _real_monotonic() >= t_end:
                break
            cand = dict(cur)
            cand["steps"] = steps[:start] + steps[start + chunk:]
            if not cand["steps"]:
                continue
            got = fails(cand)
            if got is not None:
                cur = got
                n = max(n - 1, 2)
                reduced = True
                break
        if not reduced:
            if chunk == 1:
                break
            n = min(len(steps), n * 2)
    # 2. per-step / config shrinking offered by the workload
    improved = True
    while improved and _real_monotonic() < t_end:
        improved = False
        for cand in workload.shrink_candidates(cur):
            if _real_monotonic() >= t_end:
                break
            got = fails(cand)
            if got is not None and digest(got) != digest(cur):
                cur = got
                improved = True
                break
    return cur, tests[0]


# --------------------------------------------------------------------------
# a history in an interpreter that was started in another zone

HOST_ZONES_WEST = [-19800, 12600, -45900, 1800, -50400, 39600, -3600, -60,
                   34200, -20700]


def posix_tz(west, name="XST"):
    """POSIX TZ string of a fixed zone `west` seconds west of UTC (the sign
    in TZ is that of `time.timezone`: XST-5:30 is UTC+05:30; the name is
    free: UTC-3 is a zone called 'UTC' three hours east of Greenwich)."""
    a = abs(west)
    return "%s%s%d:%02d" % (name, "-" if west < 0 else "+", a // 3600,
                            (a % 3600) // 60)


def run_in_host_zone(prop, trace):
    """workload.execute(trace) in a SPAWNED interpreter whose TZ is
    trace['host_tz']: the library is imported -- and whatever it sets up at
    import time is set up -- under that zone, with the real `time` module."""
    import subprocess
    import tempfile
    fd, path = tempfile.mkstemp(prefix="verif-host-", suffix=".json")
    try:
        with os.fdopen(fd, "w") as out:
            json.dump(trace, out)
        proc = subprocess.run(
            [sys.executable, os.path.join(VERIF_DIR, "check.py"), "_host",
             prop, path], capture_output=True, text=True, timeout=600,
            env=dict(os.environ, VERIF_REPO=REPO, TZ=trace["host_tz"],
                     PYTHONHASHSEED="0"))
    finally:
        os.remove(path)
    line = [ln for ln in proc.stdout.splitlines() if ln.startswith("HOST ")]
    if not line:
        raise HarnessError(
            "spawned host-zone run failed: " + proc.stderr[-400:])
    return json.loads(line[0][5:])


def host_main(workload, path):
    """Entry of the spawned interpreter (check.py _host <PROP> <file>)."""
    import time
    with open(path) as inp:
        trace = json.load(inp)
    west = trace["zones"][0][0]
    if time.timezone != west:
        raise HarnessError("host zone not in force: %r != %r" % (
            time.timezone, west))
    if trace.get("host_dst_rule"):
        # a zone that defines daylight saving: whether it is in effect at
        # import depends on the real date, so the simulated world starts
        # with what the real `time` module reports right now
        if (time.altzone, time.daylight) != (trace["zones"][0][1], 1):
            raise HarnessError("host DST rule not in force: %r" % (
                (time.timezone, time.altzone, time.daylight),))
        trace["isdst"] = 1 if time.localtime().tm_isdst == 1 else 0
    arm_alarm()
    print("HOST " + json.dumps(workload.execute(trace), default=str))
    return 0


def run_lazy_import(prop, trace):
    """workload.execute(trace) in a SPAWNED interpreter that first imports
    only the data model, selects trace['pre_import_mode'] and computes with
    it -- and imports the rest of the library (operators, command line)
    after that, the way an application with lazy imports does."""
    import subprocess
    import tempfile
    fd, path = tempfile.mkstemp(prefix="verif-lazy-", suffix=".json")
    try:
        with os.fdopen(fd, "w") as out:
            json.dump(trace, out)
        proc = subprocess.run(
            [sys.executable, os.path.join(VERIF_DIR, "check.py"), "_lazy",
             prop, path], capture_output=True, text=True, timeout=900,
            env=dict(os.environ, VERIF_REPO=REPO, PYTHONHASHSEED="0"))
    finally:
        os.remove(path)
    line = [ln for ln in proc.stdout.splitlines() if ln.startswith("LAZY ")]
    if not line:
        raise HarnessError(
            "spawned lazy-import run failed: " + proc.stderr[-400:])
    return json.loads(line[0][5:])


def lazy_main(workload, path):
    """Entry of the spawned interpreter (check.py _lazy <PROP> <file>)."""
    with open(path) as inp:
        trace = json.load(inp)
    sys.dont_write_bytecode = True
    if sys.path[0] != REPO:
        sys.path.insert(0, REPO)
    if any(name.startswith("metomi.isodatetime") for name in sys.modules):
        raise HarnessError("library already imported")
    import metomi.isodatetime.data as data
    for later in ("datetimeoper", "main", "parsers", "dumpers"):
        if "metomi.isodatetime." + later in sys.modules and later in (
                "datetimeoper", "main"):
            raise HarnessError("%s imported by the data model" % later)
    data.Calendar.default().set_mode(trace["pre_import_mode"])
    str(data.TimePoint(year=2001, month_of_year=2, day_of_month=28) +
        data.Duration(days=2))
    arm_alarm()
    print("LAZY " + json.dumps(workload.execute(trace), default=str))
    return 0


# --------------------------------------------------------------------------
# replay files, known findings, evidence

def write_replay(prop, seed, trace, violation):
    os.makedirs(os.path.join(VERIF_DIR, "replays"), exist_ok=True)
    body = {"property": prop, "seed": seed, "trace": trace,
            "violation": violation,
            "key": list(violation_key(violation))}
    name = "%s-%s-%s.json" % (prop, seed, digest(body)[:8])
    path = os.path.join(VERIF_DIR, "replays", name)
    with open(path, "w") as out:
        json.dump(body, out, indent=1, sort_keys=True, default=str)
    return path


def load_known_findings(prop):
    path = os.path.join(VERIF_DIR, "known_findings.json")
    if not os.path.exists(path):
        return []
    with open(path) as inp:
        doc = json.load(inp)
    return [f for f in doc.get("findings", []) if f.get("property") == prop]


def matches_finding(violation, finding):
    for k, want in finding.get("match", {}).items():
        got = violation.get(k)
        if isinstance(want, dict) and "contains" in want:
            if want["contains"] not in str(got):
                return False
        elif got != want:
            return False
    return True


def write_evidence(prop, tier, seed, coverage, wall_s, violations,
                   assumptions):
    os.makedirs(os.path.join(VERIF_DIR, "evidence"), exist_ok=True)
    doc = {"property_id": prop, "tier": tier, "seed": seed,
           "level": "exploration", "coverage": coverage,
           "assumptions": assumptions, "wall_s": round(wall_s, 2),
           "violations": violations}
    path = os.path.join(VERIF_DIR, "evidence", prop + ".json")
    tmp = path + ".tmp"
    with open(tmp, "w") as out:
        json.dump(doc, out, indent=1, sort_keys=True, default=str)
    os.replace(tmp, path)
    return path
