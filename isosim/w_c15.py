"""C15 -- the active calendar mode alone determines calendar results.

Clients bound to a calendar spelling are interleaved over the process-wide
calendar singleton and its memo caches; every client's transcript must equal
the transcript of the same client replayed alone in a fresh process that only
ever used that client's spelling (oracle 1), the mode in force after every
switch path is the one the environment model predicts (oracle 2) and month /
year lengths read through the public helpers are the reference tables of the
mode the simulator's own bookkeeping says is current (oracle 3).
"""
import hashlib
import re

from . import kernel, model, world

PROP = "C15"
EXPECTED_PROBES = ["distinguishing_reuse", "lazy_resumed_after_switch",
                   "value_used_under_another_calendar",
                   "evicting_caches", "cache_hits", "client_changes",
                   "reissued_ops"]

SWITCH_PATHS = ["set_mode_default", "set_mode_global", "dto_opt", "dto_env",
                "main_opt", "main_env", "equiv", "none", "dto_noenv", "case",
                "dto_static"]

HOT_YEARS = [-2000, -401, -400, -100, -4, -1, 0, 1, 4, 100, 400, 1600, 1700,
             1900, 1970, 1999, 2000, 2001, 2004, 2019, 2020, 2023, 2024,
             2100, 2400, 9999, 10000]
DURS = ["P1D", "P1M", "P1Y", "-P1M", "P1Y1M", "PT36H", "P1W", "P30D", "P59D",
        "P400D", "P4Y", "P12M", "-P1Y", "P1M1D", "PT1H", "P365D", "P366D",
        "P360D", "-P1D", "P2M", "-P60D", "P1Y2M3DT4H5M6S", "PT86400S",
        "P11M", "-P13M", "P100Y",
        # spans of more than a 400-year cycle in exact units (a fast path for
        # huge day counts would be calendar-dependent)
        "P150000D"]
DUMP_FORMATS = ["CCYY-MM-DD", "CCYY-DDD", "CCYY-Www-D", "CCYYMMDDThhmmssZ",
                "CCYY-MM-DDThh:mm:ss+05:30", "+XCCYY-DDDThh", "CCYYWwwD",
                "%Y-%m-%d %j", "%F %X", "%s", "CCYY-MM"]
TRUNCS = ["T06", "T-30", "---15", "-W-3", "-045", "--03", "T18:45",
          "---28T12"]

# Values that are valid in every calendar and are SHARED by all clients of a
# run: created by whichever client needs one first (under its calendar) and
# then used by the others under theirs.  A value must not carry calendar
# facts of its birth calendar into later computations.
X_VALUES = [("tp", "2001-01-28T00:00:00Z"), ("tp", "2000-03-01T12:00:00+05:30"),
            ("tp", "2001-060T00:00:00Z"), ("tp", "2003-W09-3T06:00:00Z"),
            ("tp", "1999-12-28T23:59:59-11:00"),
            # only recurrences whose whole state is what was written: a bounded
            # or two-point recurrence stores an end point / interval computed
            # under its birth calendar (observable as .end_point/.duration),
            # a value no fresh single-mode process can hold -- the property
            # gives no reference for it
            ("rec", "R/2001-01-28T00Z/P1M"), ("rec", "R/P20D/2001-03-01T00Z"),
            ("rec", "R/2000-02-28T12:00:00+01:00/P1Y"),
            ("dur", "P1Y"), ("dur", "P1M"), ("dur", "P1Y2M3D")]
X_ACTIONS = {"tp": ["reprs", "add:P1M", "add:P40D", "add:-P60D", "epoch",
                    "sub:2000-01-01T00:00:00Z"],
             "rec": ["list:6", "valid:2001-03-09T00:00:00Z",
                     "after:2001-02-01T00:00:00Z", "str"],
             "dur": ["secs", "cmp:P360D", "cmp:P365D"]}

PUBLIC_HELPERS = {
    "get_is_leap_year", "get_days_in_year_range", "get_days_in_year",
    "get_days_in_month", "get_weeks_in_year",
    "get_calendar_date_from_ordinal_date", "get_calendar_date_from_week_date",
    "get_ordinal_date_from_calendar_date", "get_ordinal_date_from_week_date",
    "get_week_date_from_calendar_date", "get_week_date_from_ordinal_date",
    "get_calendar_date_week_date_start", "get_days_since_1_ad",
    "get_ordinal_date_week_date_start", "get_timepoint_for_now",
    "get_timepoint_from_seconds_since_unix_epoch",
    "get_timepoint_properties_from_seconds_since_unix_epoch",
    "iter_months_days"}


# --------------------------------------------------------------------------
# generation (pure: touches no library code)

def fmt_year(y):
    if 0 <= y <= 9999:
        return "%04d" % y
    return "%s%06d" % ("-" if y < 0 else "+", abs(y))


def gen_point(rng, hot, date_only_ok=True):
    y = rng.choice(hot)
    rep = rng.choice(["cal", "cal", "cal", "ord", "week"])
    ext = rng.random() < 0.7
    sep = "-" if ext else ""
    if rep == "cal":
        m = rng.choice([1, 2, 2, 2, 3, 4, 6, 12, rng.randint(1, 12)])
        d = rng.choice([1, 28, 29, 30, 31, rng.randint(1, 31)])
        date = "%s%s%02d%s%02d" % (fmt_year(y), sep, m, sep, d)
    elif rep == "ord":
        doy = rng.choice([1, 59, 60, 61, 359, 360, 361, 365, 366,
                          rng.randint(1, 366)])
        date = "%s%s%03d" % (fmt_year(y), sep, doy)
    else:
        w = rng.choice([1, 2, 51, 52, 53, rng.randint(1, 53)])
        wd = rng.randint(1, 7)
        date = "%s%sW%02d%s%d" % (fmt_year(y), sep, w, sep, wd)
    r = rng.random()
    if r < 0.15 and date_only_ok:
        return date
    if ext:
        tm = rng.choice(["T00:00:00", "T12:30:00", "T23:59:59", "T06",
                         "T18:45", "T00:00:01", "T24:00:00", "T12,5"])
        tz = rng.choice(["Z", "Z", "Z", "+05:30", "-03:30", "+01", "-11:00",
                         "+13:45"])
    else:
        tm = rng.choice(["T000000", "T123000", "T235959", "T06", "T1845",
                         "T000001", "T240000", "T12,5"])
        tz = rng.choice(["Z", "Z", "Z", "+0530", "-0330", "+01", "-1100",
                         "+1345"])
    return date + tm + tz


def gen_dur(rng):
    """A duration: mostly from the fixed list, sometimes of random size (so
    that no magnitude is structurally out of reach)."""
    r = rng.random()
    if r < 0.8:
        return rng.choice(DURS)
    sign = "-" if rng.random() < 0.3 else ""
    if r < 0.86:
        return "%sP%dD" % (sign, rng.choice(
            [rng.randint(1, 1000)] * 12 + [rng.randint(1000, 200000)] * 4 +
            # now and then beyond any block of millennia an implementation
            # might treat specially (2800 years are 1.02 million days, ten
            # millennia 3.66 million)
            [rng.randint(10 ** 6, 5 * 10 ** 6)]))
    if r < 0.9:
        return "%sPT%dH" % (sign, rng.choice(
            [rng.randint(1, 20000)] * 12 + [rng.randint(1, 4000000)] * 4 +
            [rng.randint(24 * 10 ** 6, 12 * 10 ** 7)]))
    if r < 0.94:
        return "%sP%dM" % (sign, rng.randint(1, 3000))
    if r < 0.97:
        return "%sP%dY" % (sign, rng.randint(1, 3000))
    return "%sP%dYT%dS" % (sign, rng.randint(0, 500), rng.randint(
        1, 10 ** 9))


def gen_rec(rng, hot):
    p = gen_point(rng, hot, date_only_ok=False)
    d = rng.choice([x for x in DURS if not x.startswith("-")])
    kind = rng.random()
    n = rng.choice(["", "", "1", "2", "3", "5", "12", "40"])
    if kind < 0.5:
        return "R%s/%s/%s" % (n, p, d)
    if kind < 0.8:
        return "R%s/%s/%s" % (n, d, p)
    # second point close to the first: a two-point recurrence spanning
    # millennia multiplies a huge interval (minutes of day-by-day tick-over)
    m = YEAR_RE.match(p)
    y1 = int(m.group(0)) if m else 2000
    near = [y1 + rng.choice([0, 0, 1, 4])]
    return "R%s/%s/%s" % (n, p, gen_point(rng, near, date_only_ok=False))


YEAR_RE = re.compile(r"^[+-]\d{6}|^\d{4}")

OP_KINDS = ["diy", "dim", "wiy", "diyr", "leap", "cwds", "owds", "d1ad",
            "imd", "c_o", "c_w", "o_c", "o_w", "w_c", "w_o", "mk", "add",
            "sub", "cmp", "reprs", "props", "tz", "epoch", "from_epoch",
            "dump", "strptime", "dur_cmp", "dur_secs", "rec_list",
            "rec_valid", "rec_after", "rec_getitem", "rec_open", "rec_next",
            "hold", "held_add", "held_reprs", "dto_proc", "dto_diff", "cli",
            "trunc_add", "consts", "props_epoch", "xuse", "xuse",
            "from_epoch_l", "sh_proc", "sh_now", "sh_fmt", "sh_iter",
            "sh_parts", "sh_ref", "parse_expr", "parse_trunc"]
# (add_sweep is generated on its own, rarely: it is 6000 additions)


TRUNC_BOUNDS = ["-W53", "-W53-4", "-366", "--02-30", "--02-29", "-W52-7",
                "---31", "-365"]
MODE_SENSITIVE_DATES = ["2001-02-30T06:00:00Z", "2001-02-29", "2004-W53-1",
                        "2000-02-29T00Z", "2003-366", "2001-12-31T12Z",
                        "2002-W53-7T00Z", "20010230"]
OPER_REFS = ["2021-03-01T00:30:00+01:00", "2020-12-31T23:30:00-01:00",
             "2000-02-29T12:00:00Z", "2001-01-01T00:00:00+05:30",
             "2023-02-30T06:00:00Z", "19991231T2359-0030"]
NOMINAL_DURS = ["P1Y", "P1M", "P1Y2M3DT4H", "P400D", "PT36H", "-P1Y", "P13M",
                "P4Y", "P100Y"]


def gen_op(rng, kind, hot, handles):
    y = rng.choice(hot)
    if kind == "diy":
        return ["diy", y]
    if kind == "dim":
        return ["dim", rng.choice([1, 2, 2, 2, 4, 12, rng.randint(1, 12)]),
                rng.choice([y, y, y, "leap", None])]
    if kind == "wiy":
        return ["wiy", y]
    if kind == "diyr":
        y2 = rng.choice(hot)
        return ["diyr", min(y, y2), max(y, y2)] if rng.random() < 0.9 else [
            "diyr", y, y2]
    if kind == "leap":
        return ["leap", y]
    if kind == "cwds":
        return ["cwds", y]
    if kind == "owds":
        return ["owds", y]
    if kind == "d1ad":
        return ["d1ad", y]
    if kind == "imd":
        shape = rng.randint(0, 3)
        if shape == 0:
            return ["imd", y, None, None, False]
        if shape == 1:
            return ["imd", y, None, None, True]
        m = rng.choice([1, 2, 3, 12])
        if shape == 2:
            return ["imd", y, m, None, rng.random() < 0.5]
        return ["imd", y, m, rng.choice([1, 15, 28]), rng.random() < 0.5]
    if kind == "c_o":
        return ["c_o", y, rng.choice([1, 59, 60, 61, 360, 361, 365, 366])]
    if kind in ("c_w", "o_w"):
        return [kind, y, rng.choice([1, 9, 10, 52, 53]), rng.randint(1, 7)]
    if kind in ("o_c", "w_c"):
        return [kind, y, rng.choice([1, 2, 3, 12]),
                rng.choice([1, 28, 29, 30, 31])]
    if kind == "w_o":
        return ["w_o", y, rng.choice([1, 59, 60, 61, 360, 361, 365, 366])]
    if kind == "mk":
        rep = rng.choice(["cal", "ord", "week"])
        if rep == "cal":
            kw = {"year": y, "month_of_year": rng.choice([1, 2, 4, 12, 13]),
                  "day_of_month": rng.choice([1, 28, 29, 30, 31])}
        elif rep == "ord":
            kw = {"year": y,
                  "day_of_year": rng.choice([1, 360, 361, 365, 366, 367])}
        else:
            kw = {"year": y, "week_of_year": rng.choice([1, 52, 53, 54]),
                  "day_of_week": rng.choice([1, 7])}
        return ["mk", kw]
    if kind == "add":
        if rng.random() < 0.01:
            # a dense sweep: one date plus every day count of a window.  A
            # memo table keyed in a coordinate that itself depends on the
            # calendar (days since some base year) escapes same-argument
            # comparisons -- the calendars' coordinates differ by a few
            # thousand days -- but two sweeps under two calendars overlap
            return ["add_sweep", "%04d-01-01T00:00:00Z" % rng.choice(
                [2000, 2000, 1999, 2004]), 733, rng.choice([2500, 6000])]
        return ["add", gen_point(rng, hot), gen_dur(rng)]
    if kind == "sub":
        return ["sub", gen_point(rng, hot), gen_point(rng, hot)]
    if kind == "cmp":
        return ["cmp", gen_point(rng, hot), gen_point(rng, hot)]
    if kind == "reprs":
        return ["reprs", gen_point(rng, hot)]
    if kind == "props":
        return ["props", gen_point(rng, hot)]
    if kind == "tz":
        return ["tz", gen_point(rng, hot), rng.choice([0, 5, -3, 13, -12, 23]),
                0]
    if kind == "epoch":
        return ["epoch", gen_point(rng, hot)]
    if kind == "from_epoch":
        return ["from_epoch", rng.choice(
            [0, 86400 * 59, 86400 * 365, 951782400, -86400 * 400,
             86400 * 360 * 30, 86400 * 366, -86400, 1000000000,
             rng.randint(-10 ** 9, 10 ** 9), rng.randint(-10 ** 10, 10 ** 10),
             rng.choice([rng.randint(-3 * 10 ** 10, 3 * 10 ** 10),
                         13 * 10 ** 9])])]
    if kind == "from_epoch_l":
        return ["from_epoch_l", rng.choice(
            [0, 3600, 86400 * 45, 86400 * 59, 951782400, -86400 * 400,
             rng.randint(-10 ** 10, 10 ** 10)])]
    if kind == "props_epoch":
        return ["props_epoch", rng.choice(
            [0, 86400 * 59, 951782400, -86400 * 400, 86400 * 360 * 30,
             rng.randint(-10 ** 10, 10 ** 10)])]
    if kind == "dump":
        return ["dump", gen_point(rng, hot), rng.choice(DUMP_FORMATS)]
    if kind == "strptime":
        m = rng.choice([1, 2, 12])
        d = rng.choice([1, 28, 29, 30, 31])
        if rng.random() < 0.5:
            return ["strptime", "%04d-%02d-%02d" % (abs(y) % 10000, m, d),
                    "%Y-%m-%d"]
        return ["strptime", "%04d %03d" % (
            abs(y) % 10000, rng.choice([60, 360, 361, 366])), "%Y %j"]
    if kind == "dur_cmp":
        return ["dur_cmp", rng.choice(DURS), rng.choice(DURS)]
    if kind == "dur_secs":
        return ["dur_secs", rng.choice(DURS)]
    if kind == "rec_list":
        return ["rec_list", gen_rec(rng, hot), rng.choice([1, 3, 5, 14])]
    if kind == "rec_valid":
        return ["rec_valid", gen_rec(rng, hot),
                gen_point(rng, hot, date_only_ok=False)]
    if kind == "rec_after":
        return ["rec_after", gen_rec(rng, hot),
                gen_point(rng, hot, date_only_ok=False)]
    if kind == "rec_getitem":
        return ["rec_getitem", gen_rec(rng, hot), rng.choice([0, 1, 2, 7])]
    if kind == "rec_open":
        h = "g%d" % len(handles)
        handles.append(h)
        return ["rec_open", gen_rec(rng, hot), h]
    if kind == "rec_next":
        gens = [h for h in handles if h.startswith("g")]
        if not gens:
            return gen_op(rng, "rec_open", hot, handles)
        return ["rec_next", rng.choice(gens)]
    if kind == "hold":
        h = "v%d" % len(handles)
        handles.append(h)
        return ["hold", gen_point(rng, hot), h]
    if kind in ("held_add", "held_reprs"):
        vals = [h for h in handles if h.startswith("v")]
        if not vals:
            return gen_op(rng, "hold", hot, handles)
        if kind == "held_add":
            return ["held_add", rng.choice(vals), gen_dur(rng)]
        return ["held_reprs", rng.choice(vals)]
    if kind == "dto_proc":
        offs = [rng.choice(DURS) for _ in range(rng.choice([0, 1, 1, 2]))]
        return ["dto_proc", gen_point(rng, hot), offs,
                rng.choice([None, None] + DUMP_FORMATS)]
    if kind == "dto_diff":
        return ["dto_diff", gen_point(rng, hot), gen_point(rng, hot),
                [rng.choice(DURS)] if rng.random() < 0.3 else [],
                [rng.choice(DURS)] if rng.random() < 0.3 else []]
    if kind == "sh_proc":
        # the one long-lived operator of the process, used by every client
        offs = [rng.choice(DURS) for _ in range(rng.choice([0, 1, 1, 2]))]
        return ["sh_proc", gen_point(rng, hot), offs,
                rng.choice([None, None] + DUMP_FORMATS)]
    if kind == "parse_trunc":
        # truncated dates whose bounds depend on the calendar (week 53, day
        # 366, 30 February): parsed and validated only, never added
        return ["parse_trunc", rng.choice(TRUNC_BOUNDS)]
    if kind == "parse_expr":
        # the module-level convenience parser: a date that exists in some
        # calendars only must be refused in the others, whatever was parsed
        # before
        if rng.random() < 0.6:
            return ["parse_expr", rng.choice(MODE_SENSITIVE_DATES)]
        return ["parse_expr", gen_point(rng, hot)]
    if kind == "sh_ref":
        # a second long-lived operator, configured: UTC mode and a reference
        # point of its own (a zoned time next to a month end, a leap day)
        if rng.random() < 0.5:
            return ["sh_ref", "proc", [rng.choice(DURS) for _ in range(
                rng.choice([0, 1, 2]))], rng.choice([None] + DUMP_FORMATS)]
        return ["sh_ref", "diff", gen_point(rng, hot),
                rng.random() < 0.5]
    if kind == "sh_parts":
        # the steps process_time_point_str / diff_time_point_strs are made
        # of, called one by one as a host program may
        return ["sh_parts", gen_point(rng, hot), gen_point(rng, hot),
                rng.choice(DURS), rng.choice(DUMP_FORMATS + ["%a %d %b %Y"])]
    if kind == "sh_fmt":
        # ... its other public methods too: a duration as a total (years and
        # months count with the calendar's year length)
        return ["sh_fmt", rng.choice(NOMINAL_DURS), rng.choice(
            ["s", "S", "m", "h", "H"]), rng.random() < 0.5]
    if kind == "sh_iter":
        return ["sh_iter", gen_rec(rng, hot), rng.choice(
            [None, "CCYY-DDD", "%Y-%m-%d"]), rng.choice([2, 4, 8]),
            rng.random() < 0.5]
    if kind == "sh_now":
        # ... also for the current time (the simulated clock stands within
        # one second for a whole run, so the text is reproducible)
        offs = [rng.choice(DURS) for _ in range(rng.choice([0, 0, 1, 2]))]
        return ["sh_now", rng.choice(["now", None, "ref"]), offs,
                rng.choice([None, None, "CCYY-DDDThh:mm:ssZ", "%Y-%m-%d %j",
                            "CCYY-Www-DThh:mm:ss+hh:mm"])]
    if kind == "cli":
        form = rng.randint(0, 3)
        if rng.random() < 0.06:
            args = ["now"] + ["--offset=" + rng.choice(DURS)
                              for _ in range(rng.choice([0, 1]))]
            if rng.random() < 0.5:
                args.append("--utc")
            return ["cli", args]
        if form == 0:
            args = [gen_point(rng, hot)]
            for _ in range(rng.choice([0, 1, 2])):
                args += ["--offset=" + rng.choice(DURS)]
            if rng.random() < 0.3:
                args += ["--print-format", rng.choice(DUMP_FORMATS)]
        elif form == 1:
            args = [gen_point(rng, hot), gen_point(rng, hot)]
            if rng.random() < 0.3:
                args += ["--as-total", rng.choice(["H", "M", "S"])]
        elif form == 2:
            args = [gen_rec(rng, hot), "--max=%d" % rng.choice([1, 3, 12])]
        else:
            args = ["--as-total", rng.choice(["H", "S"]), rng.choice(
                [d for d in DURS if not d.startswith("-")])]
        return ["cli", args]
    if kind == "trunc_add":
        p = gen_point(rng, hot, date_only_ok=False)
        # whole seconds, hour != 24 (other shapes loop on the pinned tree)
        p = p.replace("T24:00:00", "T23:00:00").replace(
            "T240000", "T230000").replace("T12,5", "T12")
        return ["trunc_add", rng.choice(TRUNCS), p]
    if kind == "consts":
        return ["consts"]
    if kind == "xuse":
        xkind, text = rng.choice(X_VALUES)
        action = rng.choice(X_ACTIONS[xkind])
        return ["xuse", "x%d" % X_VALUES.index((xkind, text)), xkind, text,
                action]
    raise ValueError(kind)


def gen_spellings(rng, n):
    out = []
    bases = ["gregorian", "360day", "365day", "366day"]
    rng.shuffle(bases)
    for i in range(n):
        if i < len(bases) and rng.random() < 0.8:
            b = bases[i]
            sp = rng.choice([s for s in model.SPELLINGS
                             if model.BASE[s] == b])
        else:
            sp = rng.choice(model.SPELLINGS)
        out.append(sp)
    return out


def gen_random(rng, index):
    nclients = rng.choice([2, 2, 3, 3, 4, 5])
    sps = gen_spellings(rng, nclients)
    hot = rng.sample(HOT_YEARS, rng.randint(3, 7))
    if rng.random() < 0.3:
        hot.append(rng.randint(-9999, 9999))
    nsteps = rng.randint(10, 150)
    if rng.random() < 0.012:
        # a marathon: many operations over many distinct years in one process
        nsteps = rng.randint(300, 600)
        hot = rng.sample(HOT_YEARS, 16) + [rng.randint(-9999, 9999)
                                           for _ in range(8)]
    enabled = rng.sample(OP_KINDS, rng.randint(3, len(OP_KINDS)))
    weights = [rng.choice([1, 1, 2, 5]) for _ in enabled]
    p_perturb = rng.choice([0.0, 0.05, 0.1, 0.2, 0.35])
    p_reissue = rng.choice([0.3, 0.6, 0.8])
    p_stay = rng.choice([0.0, 0.3, 0.6])
    cache_max = rng.choice([None, None, None, 0, 1, 2, 8, 64])
    paths = rng.sample(SWITCH_PATHS, rng.randint(1, len(SWITCH_PATHS)))
    handles = {c: [] for c in range(nclients)}
    issued = []
    steps = []
    cid = 0
    for _ in range(nsteps):
        if rng.random() < p_perturb:
            steps.append(gen_perturbation(rng))
            continue
        if rng.random() >= p_stay:
            cid = rng.randrange(nclients)
        others = [op for c, op in issued if c != cid]
        if others and rng.random() < p_reissue:
            op = rng.choice(others)
            if op[0] in ("rec_open", "hold"):
                h = "%s%d" % (op[2][0], len(handles[cid]))
                handles[cid].append(h)
                op = [op[0], op[1], h]
            elif op[0] in ("rec_next", "held_add", "held_reprs"):
                op = gen_op(rng, op[0], hot, handles[cid])
        else:
            kind = rng.choices(enabled, weights)[0]
            op = gen_op(rng, kind, hot, handles[cid])
        issued.append((cid, op))
        step = {"k": "op", "c": cid, "op": op, "sw": rng.choice(paths),
                "pr": [rng.choice(hot), rng.randint(1, 12)]}
        if rng.random() < 0.08:
            step["force"] = True
        steps.append(step)
    if cache_max == 0:
        # with memoisation switched off the heaviest operations (tick-over
        # across millennia, above all on week dates) cost seconds each: a
        # history full of them would run for minutes -- keep them light here
        import json
        text = json.dumps(steps)
        text = re.sub(r"P(\d{5,})D", "P400D", text)
        text = re.sub(r"PT(\d{6,})H", "PT36H", text)
        steps = json.loads(text)
    return {"property": PROP, "kind": "random", "index": index,
            "clients": sps, "cache_max": cache_max, "steps": steps,
            # the process's local zone: fixed for the run, often not UTC
            # (conversions to local time west of UTC reach back into 1969)
            "zone_minutes": rng.choice([0, 0, -300, 330, -210, 60, -720,
                                        765, -1])}


def gen_perturbation(rng):
    r = rng.random()
    if r < 0.35:
        return {"k": "foreign",
                "how": rng.choice(["dto", "main", "set_mode", "main_ver"]),
                "sp": rng.choice(model.SPELLINGS + [None, None])}
    if r < 0.5:
        return {"k": "fail_switch",
                "how": rng.choice(["set_mode", "main", "dto"])}
    if r < 0.7:
        return {"k": "env", "v": rng.choice(model.SPELLINGS + [None, ""])}
    if r < 0.82:
        return {"k": "cache_clear", "frac": rng.choice([0.2, 0.5, 1.0]),
                "salt": rng.randrange(1 << 30)}
    if r < 0.93:
        return gen_scratch(rng)
    return {"k": "raise_in_helper", "y": rng.choice(HOT_YEARS)}


def gen_scratch(rng, sp=None):
    """Somebody else in the process builds objects of their own -- a second
    Calendar instance set to another mode, parsers and dumpers with other
    options -- and computes with them.  None of that is a switch of the
    active calendar."""
    return {"k": "scratch",
            "how": rng.choice(["calendar", "calendar", "calendar_init",
                               "parsers", "dumper"]),
            "sp": sp or rng.choice(model.SPELLINGS),
            "y": rng.choice(HOT_YEARS)}


DIRECTED_OPS = None


def directed_ops():
    """The deterministic op list used by the directed family: every op kind
    with hot arguments chosen so that calendars disagree."""
    global DIRECTED_OPS
    if DIRECTED_OPS is not None:
        return DIRECTED_OPS
    ops = []
    for y in (2000, 2023, 1900, 0, -1):
        ops += [["diy", y], ["wiy", y], ["leap", y], ["cwds", y],
                ["owds", y], ["d1ad", y], ["dim", 2, y], ["dim", 1, y],
                ["imd", y, None, None, False], ["imd", y, None, None, True],
                ["imd", y, 2, None, False], ["imd", y, 2, 15, True],
                ["c_o", y, 60], ["c_o", y, 361], ["c_o", y, 366],
                ["c_w", y, 10, 3], ["c_w", y, 53, 1], ["o_c", y, 3, 1],
                ["o_c", y, 12, 31], ["o_w", y, 10, 3], ["w_c", y, 3, 1],
                ["w_c", y, 12, 30], ["w_o", y, 61], ["w_o", y, 360],
                ["diyr", y, y + 7], ["diyr", 1, y],
                ["mk", {"year": y, "month_of_year": 2, "day_of_month": 30}],
                ["mk", {"year": y, "month_of_year": 2, "day_of_month": 29}],
                ["mk", {"year": y, "month_of_year": 1, "day_of_month": 31}],
                ["mk", {"year": y, "day_of_year": 366}],
                ["mk", {"year": y, "day_of_year": 361}],
                ["mk", {"year": y, "week_of_year": 53, "day_of_week": 1}],
                ["mk", {"year": y, "week_of_year": 52, "day_of_week": 7}]]
    ops += [["dim", 2, "leap"], ["dim", 2, None], ["dim", 1, "leap"],
            ["dim", 1, None], ["consts"]]
    for p in ("2000-02-28T00:00:00Z", "2023-01-30T12:00:00+05:30",
              "1900-059T06Z", "2000-W09-2T23:59:59Z", "20231231T000000Z",
              "0000-12-30T00:00:00Z", "-000001-12-30T00:00:00Z"):
        for d in ("P1D", "P2D", "P1M", "P1Y", "-P1M", "P59D", "P400D",
                  "P1W", "P1Y1M", "P150000D", "-P147000D"):
            ops.append(["add", p, d])
        if p.startswith(("2000-02", "2000-W")):
            ops.append(["add", p, "P1100000D"])       # beyond 2800 years
            ops.append(["add", p, "P4000000D"])       # beyond ten millennia
        ops += [["reprs", p], ["props", p], ["epoch", p], ["tz", p, 13, 0],
                ["dump", p, "CCYY-DDD"], ["dump", p, "CCYY-Www-D"],
                ["dump", p, "%Y %j"], ["dump", p, "%s"],
                ["sub", p, "1999-03-01T00:00:00Z"],
                ["sub", "2024-03-01T00:00:00Z", p],
                ["cmp", p, "2000-03-01T00:00:00Z"],
                ["rec_list", "R5/%s/P1M" % p, 5],
                ["rec_list", "R4/P20D/%s" % p, 4],
                ["rec_valid", "R/%s/P30D" % p, "2001-01-01T00:00:00Z"],
                ["rec_after", "R/%s/P1M" % p, "2001-03-01T00:00:00Z"],
                ["rec_getitem", "R/%s/P40D" % p, 7],
                ["dto_proc", p, ["P1M", "P1D"], None],
                ["dto_proc", p, ["P60D"], "CCYY-DDD"],
                ["dto_diff", p, "2024-03-01T00:00:00Z", [], ["P1M"]],
                ["sh_proc", p, ["P1M", "P1D"], "CCYY-DDD"],
                ["cli", [p, "--offset=P1M1D"]],
                ["cli", [p, "2024-03-01T00:00:00Z"]],
                ["cli", ["R/%s/P1M" % p, "--max=4"]],
                ["trunc_add", "---15", p], ["trunc_add", "-W-3", p],
                ["trunc_add", "-045", p]]
    for xi, (xkind, text) in enumerate(X_VALUES):
        for action in X_ACTIONS[xkind]:
            ops.append(["xuse", "x%d" % xi, xkind, text, action])
    ops += [["parse_expr", t] for t in MODE_SENSITIVE_DATES]
    ops += [["parse_trunc", t] for t in TRUNC_BOUNDS]
    ops += [["add_sweep", "2000-01-01T00:00:00Z", 733, 6000]]   # (see below)
    ops += [["sh_ref", "proc", [], None], ["sh_ref", "proc", ["P1M"], "CCYY-DDD"],
            ["sh_ref", "diff", "2024-03-01T00:00:00Z", False],
            ["sh_parts", "2000-02-28T00:00:00Z", "2001-03-01T00:00:00Z", "P1M",
             "CCYY-DDD"],
            ["sh_parts", "20231231T000000Z", "1999-W52-7T00Z", "-P59D",
             "%a %d %b %Y"],
            ["sh_fmt", "P1Y", "s", False], ["sh_fmt", "P1Y2M3DT4H", "h", False],
            ["sh_fmt", "P13M", "m", True],
            ["sh_iter", "R/2000-01-31T00:00:00Z/P1M", None, 4, False],
            ["sh_iter", "R4/P1Y/2000-02-29T00:00:00Z", "CCYY-DDD", 4, True],
            ["sh_now", "now", ["P1M"], None], ["sh_now", None, [], "CCYY-DDD"],
            ["sh_now", "ref", ["-P60D"], None], ["cli", ["now", "--utc"]],
            ["from_epoch_l", 0], ["from_epoch_l", 86400 * 45],
            ["from_epoch_l", 951782400], ["from_epoch_l", -86400 * 400],
            ["cli", ["2000-01-01T00:00:00Z", "--offset=P150000D"]],
            ["from_epoch", 13 * 10 ** 9], ["from_epoch", -2 * 10 ** 10],
            ["props_epoch", 86400 * 59], ["props_epoch", 951782400],
            ["from_epoch", 0], ["from_epoch", 86400 * 59],
            ["from_epoch", 951782400], ["from_epoch", -86400 * 400],
            ["from_epoch", 86400 * 365 * 40],
            ["strptime", "2000-02-30", "%Y-%m-%d"],
            ["strptime", "2023-02-29", "%Y-%m-%d"],
            ["strptime", "2023 361", "%Y %j"],
            ["strptime", "2023 366", "%Y %j"],
            ["dur_cmp", "P1Y", "P365D"], ["dur_cmp", "P1Y", "P360D"],
            ["dur_cmp", "P1Y", "P366D"], ["dur_secs", "P1Y"],
            ["dur_secs", "P1Y1M"], ["cli", ["--as-total", "H", "P1Y"]]]
    DIRECTED_OPS = ops
    return ops


def gen_directed(rng, index):
    """fill under A, switch, read under B, switch back, read under A --
    for every op, one ordered pair of spellings per trace."""
    pairs = [(a, b) for a in model.SPELLINGS for b in model.SPELLINGS
             if a != b]
    a, b = pairs[index % len(pairs)]
    variant = index // len(pairs)
    ops = list(directed_ops())
    if index % 6:
        # (the 6000-addition sweep and the ten-millennia addition: in every
        # sixth trace only)
        ops = [o for o in ops if o[0] != "add_sweep" and "P4000000D" not in o]
    if variant:
        rng.shuffle(ops)
    paths = SWITCH_PATHS
    steps = []
    for i, op in enumerate(ops):
        ops3 = []
        for j, cid in enumerate((0, 1, 0)):
            op_c = op
            ops3.append({"k": "op", "c": cid, "op": op_c,
                         "sw": paths[(i + j + variant) % len(paths)]
                         if variant else "set_mode_default",
                         "pr": [2000 + (i % 30), 1 + i % 12]})
        steps += ops3
        if (i + index) % 3 == 0:
            # ... and once more under A, with no switch in between, after
            # someone set a Calendar instance of their own to B
            steps.append(gen_scratch(rng, b))
            steps.append(dict(ops3[2]))
        if variant and rng.random() < 0.05:
            steps.append(gen_perturbation(rng))
    return {"property": PROP, "kind": "directed", "index": index,
            "zone_minutes": [0, -300, 330][variant % 3] if variant else
            [-300, 0][index % 2],
            "clients": [a, b],
            "cache_max": None if variant < 2 else rng.choice([1, 2, 8]),
            "steps": steps}


# --------------------------------------------------------------------------
# execution (inside a forked child; draws nothing, reads no real clock)

def canon(x):
    from metomi.isodatetime import data
    if x is None or isinstance(x, (bool, int, str)):
        return x
    if isinstance(x, float):
        return repr(x)
    if isinstance(x, (list, tuple)):
        return [canon(i) for i in x]
    if isinstance(x, (data.TimePoint, data.Duration, data.TimeRecurrence)):
        try:
            return "%s:%s" % (type(x).__name__, str(x))
        except Exception as exc:
            return "%s:!str:%s:%s" % (
                type(x).__name__, type(exc).__name__, exc)
    if isinstance(x, dict):
        return {str(k): canon(v) for k, v in sorted(x.items())}
    return "%s:%r" % (type(x).__name__, x)


class Shared(object):
    """Long-lived parsers / dumpers shared by all clients of one run."""

    def __init__(self):
        from metomi.isodatetime import parsers, dumpers
        self.tp = parsers.TimePointParser(assumed_time_zone=(0, 0))
        self.tp_local = parsers.TimePointParser()
        self.tp_trunc = parsers.TimePointParser(
            assumed_time_zone=(0, 0), allow_truncated=True)
        self.dp = parsers.DurationParser()
        self.rp = parsers.TimeRecurrenceParser(self.tp, self.dp)
        self.dumper = dumpers.TimePointDumper()


class Client(object):
    def __init__(self, cid, spelling):
        self.cid = cid
        self.sp = spelling
        self.handles = {}
        self.dto = None
        self.birth = {}


def public_constants(cal):
    """Every public data attribute the active calendar shows (class level
    or instance level), whatever its name: a constant that one mode sets
    and another forgets to reset shows here.  The mode's own spelling is
    left out (the mode model compares it by meaning); iterators are not
    consumed."""
    out = []
    for name in sorted(dir(cal)):
        if name.startswith("_") or name == "mode":
            continue
        val = getattr(cal, name)
        if callable(val):
            continue
        if isinstance(val, (bool, int, float, str, type(None), list, tuple,
                            dict)):
            out.append([name, canon(val)])
        else:
            out.append([name, "<%s>" % type(val).__name__])
    return out


def summarise_list(lst):
    lst = list(lst)
    h = hashlib.sha256(repr(lst).encode()).hexdigest()[:12]
    return [len(lst), canon(lst[0]) if lst else None,
            canon(lst[-1]) if lst else None, h]


def do_op(sim, client, op):
    """Execute one client op against the real library; returns a canonical
    result (exceptions included as results)."""
    from metomi.isodatetime import data
    if sim.shared is None:
        # long-lived parsers / dumpers are born under whichever calendar is
        # active when they are first needed, and then outlive every switch
        sim.shared = Shared()
    sh = sim.shared
    kind = op[0]
    try:
        with kernel.guarded():
            if kind == "diy":
                return data.get_days_in_year(op[1])
            if kind == "dim":
                return data.get_days_in_month(op[1], op[2])
            if kind == "wiy":
                return data.get_weeks_in_year(op[1])
            if kind == "diyr":
                return data.get_days_in_year_range(op[1], op[2])
            if kind == "leap":
                return data.get_is_leap_year(op[1])
            if kind == "cwds":
                return canon(data.get_calendar_date_week_date_start(op[1]))
            if kind == "owds":
                return canon(data.get_ordinal_date_week_date_start(op[1]))
            if kind == "d1ad":
                return data.get_days_since_1_ad(op[1])
            if kind == "imd":
                return summarise_list(data.iter_months_days(
                    op[1], month_of_year=op[2], day_of_month=op[3],
                    in_reverse=op[4]))
            if kind == "c_o":
                return canon(
                    data.get_calendar_date_from_ordinal_date(op[1], op[2]))
            if kind == "c_w":
                return canon(data.get_calendar_date_from_week_date(
                    op[1], op[2], op[3]))
            if kind == "o_c":
                return canon(data.get_ordinal_date_from_calendar_date(
                    op[1], op[2], op[3]))
            if kind == "o_w":
                return canon(data.get_ordinal_date_from_week_date(
                    op[1], op[2], op[3]))
            if kind == "w_c":
                return canon(data.get_week_date_from_calendar_date(
                    op[1], op[2], op[3]))
            if kind == "w_o":
                return canon(
                    data.get_week_date_from_ordinal_date(op[1], op[2]))
            if kind == "mk":
                kw = dict(op[1])
                if not 0 <= kw["year"] <= 9999:
                    # (an odd year also takes three expanded digits, which
                    # registers a further dumper in TIMEPOINT_DUMPER_MAP)
                    kw["num_expanded_year_digits"] = 2 + kw["year"] % 2
                return canon(data.TimePoint(**kw))
            if kind == "add":
                return canon(sh.tp.parse(op[1]) + sh.dp.parse(op[2]))
            if kind == "add_sweep":
                start = sh.tp.parse(op[1])
                out = []
                for n in range(op[2], op[2] + op[3]):
                    r = start + data.Duration(days=n)
                    out.append((r.year, r.month_of_year, r.day_of_month))
                return summarise_list(out)
            if kind == "sub":
                return canon(sh.tp.parse(op[1]) - sh.tp.parse(op[2]))
            if kind == "cmp":
                a, b = sh.tp.parse(op[1]), sh.tp.parse(op[2])
                return [a < b, a == b, a > b, hash(a) == hash(b)]
            if kind == "reprs":
                p = sh.tp.parse(op[1])
                return [canon(p.to_calendar_date()),
                        canon(p.to_ordinal_date()), canon(p.to_week_date())]
            if kind == "props":
                p = sh.tp.parse(op[1])
                return [p.year, p.month_of_year, p.day_of_month,
                        p.day_of_year, p.week_of_year, p.day_of_week,
                        canon(p.get_calendar_date()),
                        canon(p.get_ordinal_date()),
                        canon(p.get_week_date())]
            if kind == "tz":
                p = sh.tp.parse(op[1])
                return canon(p.to_time_zone(
                    data.TimeZone(hours=op[2], minutes=op[3])))
            if kind == "epoch":
                return sh.tp.parse(op[1]).seconds_since_unix_epoch
            if kind == "from_epoch":
                return canon(data.get_timepoint_from_seconds_since_unix_epoch(
                    op[1], utc=True))
            if kind == "from_epoch_l":
                # in the process's local zone, and through the %s parser
                p1 = data.get_timepoint_from_seconds_since_unix_epoch(op[1])
                p2 = sh.tp_local.strptime(str(abs(op[1])), "%s")
                p3 = sh.tp_local.parse("2001-03-01T00:00:00")
                return [canon(p1), canon(p2), canon(p3.to_utc()),
                        p3.seconds_since_unix_epoch]
            if kind == "props_epoch":
                props = (
                    data.get_timepoint_properties_from_seconds_since_unix_epoch(
                        op[1]))
                return canon({k: v for k, v in props.items()
                              if k not in ("time_zone",)})
            if kind == "dump":
                return sh.dumper.dump(sh.tp.parse(op[1]), op[2])
            if kind == "strptime":
                return canon(sh.tp.strptime(op[1], op[2]))
            if kind == "dur_cmp":
                a, b = sh.dp.parse(op[1]), sh.dp.parse(op[2])
                return [a < b, a == b, a > b, a <= b, a >= b]
            if kind == "dur_secs":
                d = sh.dp.parse(op[1])
                return [canon(d.get_seconds()),
                        canon(d.get_days_and_seconds())]
            if kind == "rec_list":
                out = []
                for i, p in enumerate(sh.rp.parse(op[1])):
                    if i >= op[2]:
                        break
                    out.append(canon(p))
                return out
            if kind == "rec_valid":
                return bounded_is_valid(sh.rp.parse(op[1]), sh.tp.parse(op[2]))
            if kind == "rec_after":
                return canon(bounded_first_after(
                    sh.rp.parse(op[1]), sh.tp.parse(op[2])))
            if kind == "rec_getitem":
                return canon(sh.rp.parse(op[1])[op[2]])
            if kind == "rec_open":
                client.handles[op[2]] = iter(sh.rp.parse(op[1]))
                client.birth[op[2]] = sim.switch_count
                return "OPEN"
            if kind == "rec_next":
                gen = client.handles.get(op[1])
                if gen is None:
                    return "NOHANDLE"
                if client.birth.get(op[1]) != sim.switch_count:
                    sim.count("probe.lazy_resumed_after_switch")
                    client.birth[op[1]] = sim.switch_count
                try:
                    return canon(next(gen))
                except StopIteration:
                    return "END"
            if kind == "hold":
                client.handles[op[2]] = sh.tp.parse(op[1])
                return canon(client.handles[op[2]])
            if kind == "held_add":
                val = client.handles.get(op[1])
                if val is None:
                    return "NOHANDLE"
                return canon(val + sh.dp.parse(op[2]))
            if kind == "held_reprs":
                val = client.handles.get(op[1])
                if val is None:
                    return "NOHANDLE"
                return [canon(val.to_calendar_date()),
                        canon(val.to_ordinal_date()),
                        canon(val.to_week_date()), val.day_of_year,
                        val.week_of_year]
            if kind in ("dto_proc", "dto_diff"):
                if client.dto is None:
                    from metomi.isodatetime.datetimeoper import (
                        DateTimeOperator)
                    client.dto = DateTimeOperator(
                        utc_mode=True, calendar_mode=sim.effective_sp(client))
                    sim.note_mode(sim.effective_sp(client))
                if kind == "dto_proc":
                    return client.dto.process_time_point_str(
                        op[1], op[2] or None, op[3])
                return client.dto.diff_time_point_strs(
                    op[1], op[2], op[3] or None, op[4] or None)
            if kind in ("sh_proc", "sh_now"):
                return sim.oper.process_time_point_str(
                    op[1], op[2] or None, op[3])
            if kind == "parse_trunc":
                return canon(sh.tp_trunc.parse(op[1]))
            if kind == "parse_expr":
                from metomi.isodatetime import parsers
                return canon(parsers.parse_timepoint_expression(op[1]))
            if kind == "sh_ref":
                if op[1] == "proc":
                    return sim.oper_ref.process_time_point_str(
                        "ref", op[2] or None, op[3])
                if op[3]:
                    return sim.oper_ref.diff_time_point_strs(op[2], "ref")
                return sim.oper_ref.diff_time_point_strs("ref", op[2])
            if kind == "sh_parts":
                oper = sim.oper
                p1, fmt1 = oper.date_parse(op[1])
                p2, _ = oper.date_parse(op[2])
                shifted = oper.date_shift(p1, op[3])
                dur, sign = oper.date_diff(p1, p2)
                out = [canon(p1), fmt1, canon(shifted),
                       oper.date_format(fmt1, shifted), sign, canon(dur),
                       oper.date_diff_format(None, dur, sign),
                       oper.date_diff_format("y,m,d,h,M,s", dur, sign)]
                try:
                    out.append(oper.date_format(op[4], shifted))
                except Exception as exc:
                    out.append("EXC:" + type(exc).__name__)
                return out
            if kind in ("sh_fmt", "sh_iter"):
                oper = sim.oper
                if op[-1]:          # the client's own operator instead
                    if client.dto is None:
                        from metomi.isodatetime.datetimeoper import (
                            DateTimeOperator)
                        client.dto = DateTimeOperator(
                            utc_mode=True,
                            calendar_mode=sim.effective_sp(client))
                        sim.note_mode(sim.effective_sp(client))
                    oper = client.dto
                if kind == "sh_fmt":
                    return oper.format_duration_str(op[1], op[2])
                import itertools
                return list(itertools.islice(
                    oper.iter_recurrence_str(op[1], op[2]), op[3]))
            if kind == "cli":
                return sim.client_cli(client, op[1])
            if kind == "trunc_add":
                return canon(sh.tp_trunc.parse(op[1]) + sh.tp.parse(op[2]))
            if kind == "xuse":
                return sim.xuse(client, op)
            if kind == "consts":
                cal = data.Calendar.default()
                return [list(cal.DAYS_IN_MONTHS),
                        list(cal.DAYS_IN_MONTHS_LEAP), cal.DAYS_IN_YEAR,
                        cal.DAYS_IN_YEAR_LEAP, cal.MONTHS_IN_YEAR,
                        cal.ROUGH_DAYS_IN_YEAR, cal.MAX_DAYS_IN_MONTH,
                        cal.SECONDS_IN_YEAR, cal.SECONDS_IN_YEAR_LEAP,
                        [list(i) for i in cal.INDEXED_DAYS_IN_MONTHS],
                        [list(i) for i in cal.INDEXED_DAYS_IN_MONTHS_LEAP],
                        public_constants(cal)]
            raise kernel.HarnessError("unknown op %r" % (op,))
    except kernel.Hang:
        return "HANG"
    except kernel.HarnessError:
        raise
    except Exception as exc:
        return "EXC:%s:%s" % (type(exc).__name__, exc)


def bounded_is_valid(rec, pt, limit=400):
    """get_is_valid walks the series; an unbounded series and a far probe
    would walk for ever-longer.  Bound the walk by the number of iterated
    points instead of calling it when the series is unbounded on the probe's
    side (same public API: iteration and ==)."""
    if rec.repetitions is not None:
        return rec.get_is_valid(pt)
    n = 0
    for p in rec:
        if p == pt:
            return True
        n += 1
        if n >= limit:
            return "UNDECIDED"
        if rec.start_point is not None and p > pt:
            return False
        if rec.start_point is None and p < pt:
            return False
    return False


def bounded_first_after(rec, pt, limit=400):
    if rec.duration is not None and rec.duration.is_exact():
        return rec.get_first_after(pt)
    if rec.repetitions is not None and rec.repetitions <= limit:
        return rec.get_first_after(pt)
    n = 0
    for p in rec:
        if p > pt:
            return p
        n += 1
        if n >= limit:
            return "UNDECIDED"
    return None


class Sim(object):
    """One run: the world, its model bookkeeping, the transcripts."""

    def __init__(self, trace, solo=None):
        self.trace = trace
        self.solo = solo
        self.counters = {}
        self.violations = []
        self.transcripts = {}
        self.log = []
        self.model_mode = "gregorian"   # the sim's own bookkeeping
        self.fills = []                 # values that went into memo tables
        self.ctx = ["init"]
        self.audit_results = []
        self.env_cal = None
        self.switch_count = 0
        self.sig = []
        self.states = set()
        self.perturbed_between = False
        self.shared = None
        self.xpool = {}
        self.clients = [Client(i, sp)
                        for i, sp in enumerate(trace["clients"])]

    def count(self, key, n=1):
        self.counters[key] = self.counters.get(key, 0) + n

    def note_mode(self, spelling):
        if spelling != self.model_mode:
            self.switch_count += 1
        self.model_mode = spelling

    def effective_sp(self, client):
        """The spelling the client currently runs under: its own, or an
        equivalent one the world has been left in."""
        if (self.model_mode is not None and
                model.BASE[self.model_mode] == model.BASE[client.sp]):
            return self.model_mode
        return client.sp

    # ---- values shared across clients (and so across calendars)
    def xuse(self, client, op):
        _, handle, xkind, text, action = op
        sh = self.shared
        if handle not in self.xpool:
            if xkind == "tp":
                val = sh.tp.parse(text)
            elif xkind == "rec":
                val = sh.rp.parse(text)
            else:
                val = sh.dp.parse(text)
            self.xpool[handle] = (val, model.BASE[self.effective_sp(client)])
        val, born = self.xpool[handle]
        if born != model.BASE[self.effective_sp(client)]:
            self.count("probe.value_used_under_another_calendar")
        verb, _, arg = action.partition(":")
        if xkind == "tp":
            if verb == "reprs":
                return [canon(val.to_calendar_date()),
                        canon(val.to_ordinal_date()),
                        canon(val.to_week_date()), val.day_of_year,
                        val.week_of_year, val.day_of_month]
            if verb == "add":
                return canon(val + sh.dp.parse(arg))
            if verb == "epoch":
                return val.seconds_since_unix_epoch
            return canon(val - sh.tp.parse(arg))
        if xkind == "rec":
            if verb == "list":
                out = []
                for i, p in enumerate(val):
                    if i >= int(arg):
                        break
                    out.append(canon(p))
                return out
            if verb == "valid":
                return bounded_is_valid(val, sh.tp.parse(arg))
            if verb == "after":
                return canon(bounded_first_after(val, sh.tp.parse(arg)))
            return str(val)
        if verb == "secs":
            return [canon(val.get_seconds()),
                    canon(val.get_days_and_seconds())]
        other = sh.dp.parse(arg)
        return [val < other, val == other, val > other]

    # ---- switch paths
    def set_env_cal(self, value):
        world.set_env(world.ENV_CAL, value)
        self.env_cal = value

    def apply_switch(self, path, sp, step_no, client=None):
        from metomi.isodatetime import data
        from metomi.isodatetime.datetimeoper import DateTimeOperator
        if path in ("none", "dto_noenv") and model.BASE[sp] != "gregorian":
            path = "set_mode_default"
        if path == "main_opt" and sp not in model.CLI_CHOICES:
            path = "main_env"
        if path == "equiv":
            sp = model.EQUIV[sp]
        expect = sp
        with kernel.guarded():
            if path == "case":
                # set_mode looks the name up case-insensitively: the same
                # calendar written 'Gregorian' / '360DAY' (by API, operator
                # option or environment variable).  An implementation that
                # refuses such a spelling is given the plain one.
                spelled = sp.upper() if step_no % 2 else sp.capitalize()
                how = step_no % 3
                try:
                    if how == 0:
                        data.Calendar.default().set_mode(spelled)
                    elif how == 1:
                        DateTimeOperator(calendar_mode=spelled)
                    else:
                        self.set_env_cal(spelled)
                        try:
                            DateTimeOperator()
                        finally:
                            self.set_env_cal(None)
                    self.count("probe.mode_name_other_case")
                except Exception:
                    self.set_env_cal(None)
                    data.Calendar.default().set_mode(sp)
                    self.count("probe.mode_name_other_case_refused")
            elif path in ("set_mode_default", "equiv"):
                data.Calendar.default().set_mode(sp)
            elif path == "set_mode_global":
                data.CALENDAR.set_mode(sp)
            elif path == "dto_static":
                DateTimeOperator.set_calendar_mode(sp)
            elif path == "dto_opt":
                DateTimeOperator(calendar_mode=sp)
            elif path == "dto_env":
                self.set_env_cal(sp)
                DateTimeOperator()
            elif path == "main_opt":
                status = world.run_cli(["--calendar", sp, "2000-01-01T00Z"])
                if status[0] != "ok":
                    self.violate("switch_path", "main_opt", step_no,
                                 detail=status[0][:200])
            elif path == "main_env":
                self.set_env_cal(sp)
                status = world.run_cli(["2000-01-01T00Z"])
                if status[0] != "ok":
                    self.violate("switch_path", "main_env", step_no,
                                 detail=status[0][:200])
            elif path == "none":
                data.Calendar.default().set_mode(None)
                expect = "gregorian"
            elif path == "dto_noenv":
                self.set_env_cal(None)
                DateTimeOperator()
                expect = "gregorian"
            else:
                raise kernel.HarnessError("unknown switch path %r" % path)
        self.count("switch." + path)
        self.sig.append("sw:" + path)
        self.perturbed_between = True
        self.note_mode(expect)
        self.check_mode(expect, path, step_no)

    def check_mode(self, expect, how, step_no):
        """Oracle 2: the mode in force is the one the model predicts
        (compared by meaning: spelling variants of one calendar are equal)."""
        from metomi.isodatetime import data
        from metomi.isodatetime.datetimeoper import DateTimeOperator
        got = []
        try:
            got.append(str(data.Calendar.default().mode))
            got.append(str(DateTimeOperator.get_calendar_mode()))
        except AttributeError:
            return
        for g in got:
            if model.BASE.get(g.lower()) != model.BASE[expect]:
                self.violate("mode_model", how, step_no, got=g, want=expect)
                return

    def violate(self, cls, opkind, step_no, **extra):
        v = {"class": cls, "opkind": opkind, "step": step_no}
        v.update(extra)
        self.violations.append(v)

    # ---- client CLI calls carry the client's own calendar selection
    def client_cli(self, client, args):
        sp = self.effective_sp(client)
        if sp in model.CLI_CHOICES:
            argv = ["--calendar", sp, "--utc"] + list(args)
            saved = self.env_cal
            status, out, err = world.run_cli(argv)
        else:
            saved = self.env_cal
            self.set_env_cal(sp)
            status, out, err = world.run_cli(["--utc"] + list(args))
            self.set_env_cal(saved)
        self.note_mode(sp)
        if status.startswith("exit:2"):
            return [status, err.strip().splitlines()[-1:] if err else []]
        return [status, out]

    # ---- oracle 3
    def table_probe(self, client, year, month, step_no):
        from metomi.isodatetime import data
        sp = self.effective_sp(client)
        try:
            with kernel.guarded():
                got = [data.get_days_in_year(year),
                       [data.get_days_in_month(m, year)
                        for m in range(1, 13)],
                       len(data.iter_months_days(year)),
                       data.get_days_in_month(month, year)]
        except kernel.Hang:
            got = "HANG"
        except Exception as exc:
            got = "EXC:%s:%s" % (type(exc).__name__, exc)
        ml = list(model.month_lengths(sp, year))
        want = [sum(ml), ml, sum(ml), ml[month - 1]]
        if got != want:
            self.violate("mode_table", "table_probe", step_no,
                         spelling=sp, year=year, got=got, want=want)

    # ---- perturbations
    def perturb(self, step, step_no):
        from metomi.isodatetime import data
        from metomi.isodatetime.datetimeoper import DateTimeOperator
        kind = step["k"]
        self.sig.append(kind + ":" + str(step.get("how", "")))
        self.perturbed_between = True
        with kernel.guarded():
            if kind == "foreign":
                sp = step["sp"]
                how = step["how"]
                self.count("fault.foreign." + how)
                if how == "dto":
                    DateTimeOperator(calendar_mode=sp)
                    expect = model.mode_after_operator(sp, self.env_cal)
                elif how == "main":
                    if sp is not None and sp in model.CLI_CHOICES:
                        world.run_cli(["--calendar", sp, "2020-02-01T00Z",
                                       "--offset=P1M"])
                        expect = sp
                    else:
                        world.run_cli(["2020-02-01T00Z", "--offset=P1M"])
                        expect = model.mode_after_operator(None, self.env_cal)
                elif how == "main_ver":
                    world.run_cli(["--version"])
                    expect = self.model_mode
                else:
                    data.Calendar.default().set_mode(sp)
                    expect = sp or "gregorian"
                if expect is not None:
                    self.note_mode(expect)
                    self.check_mode(expect, "foreign." + how, step_no)
            elif kind == "fail_switch":
                how = step["how"]
                self.count("fault.fail_switch." + how)
                try:
                    if how == "set_mode":
                        data.Calendar.default().set_mode("bogus")
                    elif how == "dto":
                        DateTimeOperator(calendar_mode="bogus")
                    else:
                        world.run_cli(["--calendar", "bogus", "2000"])
                except Exception:
                    pass
                # whatever a refused switch does to the mode is outside the
                # property; the next client step re-establishes its calendar
                self.model_mode = None
                self.switch_count += 1
            elif kind == "env":
                self.count("fault.env")
                self.set_env_cal(step["v"])
            elif kind == "cache_clear":
                self.count("fault.cache_clear")
                import random
                rng = random.Random(step["salt"])
                names = [n for n in sorted(world.discover_caches())
                         if rng.random() < step["frac"]]
                world.clear_caches(set(names))
            elif kind == "scratch":
                how = step["how"]
                self.count("fault.scratch." + how)
                self.scratch(how, step["sp"], step["y"])
                if self.model_mode is not None:
                    self.check_mode(self.model_mode, "scratch." + how,
                                    step_no)
            elif kind == "raise_in_helper":
                self.count("fault.raise_in_helper")
                for fn, args in (
                        (data.get_days_in_month, (13, step["y"])),
                        (data.get_days_in_month, ("x", step["y"])),
                        (data.get_days_in_year, ("x",)),
                        (data.iter_months_days, (step["y"], None, 3)),
                        (data.get_weeks_in_year, (None,))):
                    try:
                        fn(*args)
                    except Exception:
                        pass
            else:
                raise kernel.HarnessError("unknown step kind %r" % kind)

    def scratch(self, how, sp, year):
        from metomi.isodatetime import data, parsers, dumpers
        try:
            if how == "calendar":
                cal = data.Calendar()
                cal.set_mode(sp)
                if cal is data.Calendar.default():
                    # an implementation in which Calendar() hands out the
                    # active calendar: then this *was* a switch
                    self.note_mode(sp)
                [cal.mode, cal.DAYS_IN_YEAR, cal.DAYS_IN_MONTHS,
                 cal.DAYS_IN_YEAR_LEAP, cal.WEEKS_IN_YEAR]
                self.scratch_cals = getattr(self, "scratch_cals", [])[-3:]
                self.scratch_cals.append(cal)
            elif how == "calendar_init":
                if data.Calendar() is data.Calendar.default():
                    self.model_mode = None     # re-initialised: unknown
            elif how == "parsers":
                tpp = parsers.TimePointParser(
                    num_expanded_year_digits=3, allow_truncated=True,
                    assumed_time_zone=(5, 30), dump_format="CCYYDDDThhmm")
                str(tpp.parse("+00%04d-02-28T12:00" % (abs(year) % 10000)))
                str(parsers.DurationParser().parse("P1Y2M3DT4H"))
                parsers.TimeRecurrenceParser().parse(
                    "R3/%04d-01-31T00Z/P1M" % (abs(year) % 10000))
            else:
                dmp = dumpers.TimePointDumper(num_expanded_year_digits=3)
                dmp.dump(data.TimePoint(year=abs(year) % 10000,
                                        month_of_year=3, day_of_month=1),
                         "+XCCYY-DDDThh:mm:ss+hh:mm")
        except Exception:
            pass

    # ---- main loop
    def run(self):
        from metomi.isodatetime import data
        world.fixed_utc_world(self.trace.get("zone_minutes", 0))
        world.set_env(world.ENV_CAL, None)
        world.set_env(world.ENV_REF, None)
        trace = self.trace
        if self.solo is None:
            world.record_cache_fills(self.fills, self.ctx)
        if self.solo is None and trace.get("cache_max") is not None:
            world.shrink_caches(trace["cache_max"])   # 0 = no memoisation
        # the process's one long-lived operator, built before anybody chose
        # a calendar (its constructor selects gregorian: no env var is set)
        from metomi.isodatetime.datetimeoper import DateTimeOperator
        with kernel.guarded():
            self.oper = DateTimeOperator()
            self.oper_ref = DateTimeOperator(
                utc_mode=True, ref_point_str=OPER_REFS[
                    trace.get("index", 0) % len(OPER_REFS)])
        if self.solo is not None:
            with kernel.guarded():
                data.Calendar.default().set_mode(self.clients[self.solo].sp)
            self.model_mode = self.clients[self.solo].sp
        for c in self.clients:
            self.transcripts[c.cid] = []
        last_client = None
        for step_no, step in enumerate(trace["steps"]):
            if step["k"] != "op":
                if self.solo is None:
                    self.ctx[0] = "perturb"
                    self.perturb(step, step_no)
                continue
            cid = step["c"]
            if cid >= len(self.clients):
                continue
            if self.solo is not None and cid != self.solo:
                continue
            client = self.clients[cid]
            if self.solo is None:
                need = (self.model_mode is None or
                        model.BASE[self.model_mode] != model.BASE[client.sp]
                        or step.get("force"))
                if need:
                    self.ctx[0] = "switch"
                    self.apply_switch(step["sw"], client.sp, step_no, client)
            self.ctx[0] = "op"
            res = do_op(self, client, step["op"])
            self.transcripts[cid].append([step_no, res])
            self.count("ops")
            self.count("op." + step["op"][0])
            if isinstance(res, str) and res.startswith("EXC:"):
                self.count("ops_raised")
            if res == "HANG":
                self.count("ops_hang")
            if self.solo is None:
                self.sig.append("op:%d:%s" % (cid, step["op"][0]))
                if "pr" in step:
                    self.table_probe(client, step["pr"][0], step["pr"][1],
                                     step_no)
                if last_client is not None and last_client != cid:
                    self.count("probe.client_changes")
                last_client = cid
                self.states.add("%s|%d" % (
                    self.model_mode, min(4, self.cache_bucket())))
        for tail in trace.get("audit_tail", ()) if self.solo is None else ():
            self.audit_results.append(audit_public_call(
                tail["mode"], tail["fn"], tail["args"]))
        return self

    def cache_bucket(self):
        if self.counters.get("ops", 0) % 16:
            return getattr(self, "_bucket", 0)
        total = sum(v[2] for v in world.cache_stats().values())
        self._bucket = len(str(total))
        return self._bucket


EXERCISED_API = set("""data.get_calendar_date_from_ordinal_date
data.get_calendar_date_from_week_date data.get_calendar_date_week_date_start
data.get_days_in_month data.get_days_in_year data.get_days_in_year_range
data.get_days_since_1_ad data.get_is_leap_year
data.get_ordinal_date_from_calendar_date data.get_ordinal_date_from_week_date
data.get_ordinal_date_week_date_start data.get_timepoint_for_now
data.get_timepoint_from_seconds_since_unix_epoch
data.get_timepoint_properties_from_seconds_since_unix_epoch
data.get_week_date_from_calendar_date data.get_week_date_from_ordinal_date
data.get_weeks_in_year data.iter_months_days timezone.get_local_time_zone
timezone.get_local_time_zone_format DateTimeOperator.date_diff
DateTimeOperator.date_diff_format DateTimeOperator.date_format
DateTimeOperator.date_parse DateTimeOperator.date_shift
DateTimeOperator.diff_time_point_strs DateTimeOperator.format_duration_str
DateTimeOperator.get_calendar_mode DateTimeOperator.get_datetime_strftime
DateTimeOperator.get_datetime_strptime DateTimeOperator.iter_recurrence_str
DateTimeOperator.process_time_point_str DateTimeOperator.set_calendar_mode
DateTimeOperator.strftime DateTimeOperator.strptime Calendar.default
Calendar.set_mode parsers.parse_timepoint_expression""".split())


def api_outside_table():
    """Public functions of the data / timezone modules and public methods of
    DateTimeOperator / Calendar that the operation table does not know: new
    surface is a way around the table, so it is reported."""
    import inspect
    from metomi.isodatetime import data, datetimeoper, timezone
    names = []
    from metomi.isodatetime import parsers, dumpers
    for mod in (data, timezone, parsers, dumpers, datetimeoper):
        short = mod.__name__.rsplit(".", 1)[1]
        for n, o in sorted(vars(mod).items()):
            if n.startswith("_"):
                continue
            if (inspect.isfunction(o) or hasattr(o, "__wrapped__")) and (
                    getattr(o, "__module__", mod.__name__) == mod.__name__):
                names.append("%s.%s" % (short, n))
    for cls in (datetimeoper.DateTimeOperator, data.Calendar):
        for n in sorted(dir(cls)):
            if not n.startswith("_") and callable(getattr(cls, n)):
                names.append("%s.%s" % (cls.__name__, n))
    return sorted(set(names) - EXERCISED_API)


def execute(trace, solo=None, alarm=None):
    """Entry point inside a forked child."""
    kernel.import_library()
    alarm = alarm or trace.get("alarm")
    if alarm:
        kernel.CALL_ALARM_S = alarm
    sim = Sim(trace, solo).run()
    stats = {}
    if solo is None:
        cs = world.cache_stats()
        stats["cache_hits"] = sum(v[0] for v in cs.values())
        stats["cache_misses"] = sum(v[1] for v in cs.values())
        cm = trace.get("cache_max")
        if cm:
            stats["evicting_caches"] = sum(
                1 for v in cs.values() if v[1] > cm and v[2] >= cm)
    fills = []
    if solo is None:
        keyed = [f for f in sim.fills if f[4] is not None]
        outside = [f for f in keyed if f[5] != "op"]
        inside = [f for f in keyed if f[5] == "op"]
        stride = max(1, len(inside) // 60)
        fills = [(k, a, kw, canon(v), m, c) for k, a, kw, v, m, c in (
            outside[:300] + inside[::stride][:60])]
        stats["fills_total"] = len(keyed)
        stats["fills_outside_ops"] = len(outside)
    return {"transcripts": sim.transcripts, "violations": sim.violations,
            "counters": sim.counters, "sig": sim.sig,
            "states": sorted(sim.states), "stats": stats,
            "fills": [list(f) for f in fills],
            "audit_results": sim.audit_results,
            "uncovered_api": api_outside_table() if solo is None else []}


def audit_public_call(mode, fn_name, args):
    """Select `mode` and ask the public function `fn_name` -- used at the
    end of a history and in a fresh process alike."""
    from metomi.isodatetime import data
    try:
        with kernel.guarded():
            data.Calendar.default().set_mode(mode)
            res = getattr(data, fn_name)(*args)
            if fn_name == "iter_months_days":
                res = list(res)
            return canon(res)
    except kernel.Hang:
        return "HANG"
    except Exception as exc:
        return "EXC:%s:%s" % (type(exc).__name__, exc)


def audit_fresh_fills(zone_minutes, mode, entries):
    """In a fresh process that only ever uses `mode`: what each memoised
    helper computes for the recorded arguments."""
    kernel.import_library()
    from metomi.isodatetime import data
    world.fixed_utc_world(zone_minutes)
    world.set_env(world.ENV_CAL, None)
    caches = world.discover_caches()
    out = []
    try:
        with kernel.guarded():
            data.Calendar.default().set_mode(mode)
    except Exception:
        return None
    for key, args, kwargs in entries:
        try:
            owner, attr = caches[key]
            with kernel.guarded():
                out.append(canon(getattr(owner, attr)(*args, **kwargs)))
        except kernel.Hang:
            out.append("HANG")
        except Exception as exc:
            out.append("EXC:%s" % type(exc).__name__)
    return out


def audit_fresh_public(zone_minutes, mode, fn_name, args):
    kernel.import_library()
    world.fixed_utc_world(zone_minutes)
    world.set_env(world.ENV_CAL, None)
    return audit_public_call(mode, fn_name, args)


def public_call_for(key, args, mode_at):
    """The public function (and its arguments) that reads the memo entry
    `key`(args): helpers are `_name(args..., mode)` behind `name(args...)`."""
    name = key.split(".", 1)[1]
    if not name.startswith("_"):
        return None
    pub = name[1:]
    rest = [a for i, a in enumerate(args) if i != mode_at]
    if pub == "iter_months_days":
        # (is_leap_year, month, day, in_reverse) -> a year of that kind
        return pub, [2000 if rest[0] else 2001] + rest[1:]
    return pub, rest


def cache_audit(trace, inter, alarm, counters):
    """Oracle 4: every value that went into a mode-keyed memo table equals
    what a fresh process that only ever used that mode computes for the same
    key; a mismatch is confirmed through the public function that reads the
    entry (history replayed with that call appended vs a fresh process)
    before it is reported."""
    by_mode = {}
    for key, args, kwargs, value, mode_at, ctx in inter.get("fills", ()):
        if kwargs or mode_at is None or mode_at >= len(args):
            continue
        mode = args[mode_at]
        if not isinstance(mode, str) or mode.lower() not in model.BASE:
            continue
        by_mode.setdefault(mode, []).append(
            (key, tuple(args), value, mode_at, ctx))
    zone = trace.get("zone_minutes", 0)
    suspects = []
    for mode in sorted(by_mode):
        entries = by_mode[mode]
        want = kernel.in_fresh_fork(audit_fresh_fills, (zone, mode, [
            (k, a, {}) for k, a, _, _, _ in entries]), timeout=300)
        if want is None:
            continue
        counters["cache_entries_audited"] = counters.get(
            "cache_entries_audited", 0) + len(entries)
        for (key, args, value, mode_at, ctx), w in zip(entries, want):
            if value != w and "HANG" not in (value, w):
                suspects.append((mode, key, args, value, w, mode_at, ctx))
    out = []
    for mode, key, args, value, w, mode_at, ctx in suspects[:3]:
        counters["probe.cache_audit_suspects"] = counters.get(
            "probe.cache_audit_suspects", 0) + 1
        call = public_call_for(key, list(args), mode_at)
        if call is None:
            continue
        fn_name, fn_args = call
        replay = dict(trace, audit_tail=[
            {"mode": mode, "fn": fn_name, "args": fn_args}])
        again = kernel.in_fresh_fork(execute, (replay, None, alarm))
        got = (again["audit_results"] or [None])[0]
        fresh = kernel.in_fresh_fork(
            audit_fresh_public, (zone, mode, fn_name, fn_args), timeout=300)
        if got != fresh and "HANG" not in (got, fresh):
            out.append({
                "class": "cache_audit", "opkind": fn_name,
                "step": len(trace["steps"]), "spelling": mode,
                "call": [fn_name, fn_args], "got_after_history": got,
                "want_fresh_process": fresh,
                "memo_entry": [key, list(args), value],
                "entry_computed_during": ctx})
    return out


HISTORY_OPS = ("rec_open", "rec_next", "hold", "held_add", "held_reprs")


def singleton_picks(trace, inter, limit=None):
    """Step numbers of client operations to re-execute alone in a fresh
    process (all of them up to a limit; operations on handles the client
    opened earlier legitimately depend on its history and are left out)."""
    import random
    limit = limit or (120 if trace.get("kind") == "directed" else 24)
    steps = [sn for cid, tr in inter["transcripts"].items() for sn, _ in tr
             if trace["steps"][sn]["op"][0] not in HISTORY_OPS]
    steps.sort()
    if len(steps) > limit:
        rng = random.Random("%s:%s" % (trace.get("index"), len(steps)))
        steps = sorted(rng.sample(steps, limit))
    return steps


def run_singletons(trace, picks, alarm=None):
    """Inside a forked 'nursery' that has only imported the library, set up
    the world and built parsers: fork one child per picked operation; the
    child selects the client's spelling once and performs that operation."""
    kernel.import_library()
    if alarm:
        kernel.CALL_ALARM_S = alarm
    world.fixed_utc_world(trace.get("zone_minutes", 0))
    world.set_env(world.ENV_CAL, None)
    world.set_env(world.ENV_REF, None)
    shared = Shared()
    from metomi.isodatetime.datetimeoper import DateTimeOperator
    oper = DateTimeOperator()
    oper_ref = DateTimeOperator(
        utc_mode=True, ref_point_str=OPER_REFS[
            trace.get("index", 0) % len(OPER_REFS)])

    def one(sn):
        from metomi.isodatetime import data
        step = trace["steps"][sn]
        sim = Sim(trace, solo=step["c"])
        sim.shared = shared
        sim.oper = oper
        sim.oper_ref = oper_ref
        client = sim.clients[step["c"]]
        with kernel.guarded():
            data.Calendar.default().set_mode(client.sp)
        sim.model_mode = client.sp
        return do_op(sim, client, step["op"])

    out = []
    for sn in picks:
        out.append([sn, kernel.in_fresh_fork(one, (sn,), timeout=300)])
    return out


def x_fields(op):
    """Extra fields identifying a shared-value operation (known finding)."""
    if op[0] != "xuse":
        return {}
    return {"x_kind": op[2], "x_text": op[3],
            "x_derived_point_stored_at_construction": bool(
                op[2] == "rec" and re.match(r"^R\d+/", op[3]))}


def has_hang(transcript):
    return any(res == "HANG" for _, res in transcript)


def check_trace_full(trace, alarm=None):
    """Run the interleaved history and one solo history per client, each in
    its own fresh fork; compare.  Returns (violations, result-dict)."""
    lazy = bool(trace.get("pre_import_mode"))
    if lazy:
        # the interleaved history in an interpreter that imported the
        # operators and the command line only AFTER a calendar was chosen
        import json
        inter = kernel.run_lazy_import(
            PROP, dict(trace, alarm=alarm) if alarm else trace)
        inter["transcripts"] = {int(k): v
                                for k, v in inter["transcripts"].items()}
    else:
        inter = kernel.in_fresh_fork(execute, (trace, None, alarm))
    violations = list(inter["violations"])
    counters = dict(inter["counters"])
    used = sorted(set(s["c"] for s in trace["steps"] if s["k"] == "op"
                      and s["c"] < len(trace["clients"])))
    solos = {}
    for cid in used:
        solo = kernel.in_fresh_fork(execute, (trace, cid, alarm))
        if lazy:
            solo["transcripts"][cid] = json.loads(json.dumps(
                solo["transcripts"][cid]))
        solos[cid] = solo["transcripts"][cid]
        got = inter["transcripts"][cid]
        want = solo["transcripts"][cid]
        if len(got) != len(want):
            raise kernel.HarnessError("transcript length mismatch")
        for (sn, g), (_, w) in zip(got, want):
            if g != w:
                if (g == "HANG") != (w == "HANG") and alarm is None:
                    # the per-call alarm is the one place real time enters:
                    # decide again with a six-fold alarm before believing it
                    return check_trace_full(
                        trace, alarm=6 * kernel.CALL_ALARM_S)
                op = trace["steps"][sn]["op"]
                violations.append(dict({
                    "class": "isolation", "opkind": op[0], "step": sn,
                    "client": cid, "spelling": trace["clients"][cid],
                    "op": op, "got": g, "want_fresh_process": w},
                    **x_fields(op)))
                break
    # oracle 1b -- the property's own words, operation by operation: the
    # result equals what a fresh process that only ever used the current mode
    # computes for THIS operation alone (the solo replay above repeats the
    # client's whole history, which would mask a dependence on history
    # within one mode)
    picks = singleton_picks(trace, inter)
    if picks:
        singles = kernel.in_fresh_fork(
            run_singletons, (trace, picks, alarm), timeout=600)
        by_step = {}
        for cid in used:
            for sn, res in inter["transcripts"][cid]:
                by_step[sn] = (cid, res)
        for sn, want in singles:
            cid, got = by_step[sn]
            if got != want:
                if "HANG" in (got, want):
                    counters["skipped.single_hang"] = counters.get(
                        "skipped.single_hang", 0) + 1
                    continue
                op = trace["steps"][sn]["op"]
                violations.append(dict({
                    "class": "isolation_single", "opkind": op[0], "step": sn,
                    "client": cid, "spelling": trace["clients"][cid],
                    "op": op, "got": got,
                    "want_fresh_process_this_op_alone": want},
                    **x_fields(op)))
                break
        counters["single_op_fresh_process_checks"] = len(singles)
    violations += cache_audit(trace, inter, alarm, counters)
    # probes measured over transcripts: same op issued under two calendars
    seen = {}
    for cid in used:
        for sn, res in inter["transcripts"][cid]:
            key = repr(trace["steps"][sn]["op"])
            seen.setdefault(key, {})[cid] = res
    for key, by_client in seen.items():
        if len(by_client) > 1:
            counters["probe.reissued_ops"] = counters.get(
                "probe.reissued_ops", 0) + 1
            if len(set(repr(v) for v in by_client.values())) > 1:
                counters["probe.distinguishing_reuse"] = counters.get(
                    "probe.distinguishing_reuse", 0) + 1
    counters["probe.cache_hits"] = inter["stats"].get("cache_hits", 0)
    if inter["stats"].get("evicting_caches"):
        counters["probe.evicting_caches"] = inter["stats"]["evicting_caches"]
    if trace.get("cache_max") is not None:
        counters["arm.cache_shrink_runs"] = 1
    counters["solo_replays"] = len(used)
    dig = kernel.digest([inter["transcripts"], inter["violations"], solos])
    sig = hashlib.sha256("|".join(inter["sig"]).encode()).hexdigest()[:16]
    nontrivial = any(s.startswith(("sw:", "foreign", "fail", "env", "cache",
                                   "raise", "scratch")) for s in inter["sig"])
    return violations, {
        "counters": counters, "digest": dig, "sig": sig,
        "nontrivial": nontrivial, "states": inter["states"],
        "uncovered_api": inter.get("uncovered_api", [])}


def check_trace(trace):
    return check_trace_full(trace)[0]


def make_trace(job):
    kind, seed, index = job
    rng = kernel.run_rng(PROP, seed, index, kind)
    if kind == "directed":
        return gen_directed(rng, index)
    if kind == "lazyimport":
        # a random history in an interpreter whose application imported only
        # the data model, chose a calendar and computed with it BEFORE the
        # operators and the command line were imported
        trace = gen_random(rng, index)
        if len(trace["steps"]) > 200:
            trace["steps"] = trace["steps"][:200]
        trace.update(kind="lazyimport", pre_import_mode=model.SPELLINGS[
            1 + index % (len(model.SPELLINGS) - 1)])
        return trace
    return gen_random(rng, index)


def abbreviate(trace, n=8):
    t = dict(trace)
    t["steps"] = trace["steps"][:n]
    t["steps_total"] = len(trace["steps"])
    return t


def run_job(job):
    trace = make_trace(job)
    violations, info = check_trace_full(trace)
    res = {"index": "%s:%s" % (job[0], job[2]), "counters": info["counters"],
           "digest": info["digest"],
           "sets": {"states": info["states"],
                    "uncovered_api": info.get("uncovered_api", [])},
           "violations": [dict(v, job=list(job)) for v in violations]}
    res["counters"]["runs." + job[0]] = 1
    if info["nontrivial"]:
        res["sets"]["sigs"] = [info["sig"]]
    if job[2] < 2:
        res["sample"] = abbreviate(trace)
    return res


def prune(trace):
    return trace


def shrink_candidates(trace):
    """Simpler variants of a failing trace."""
    if trace.get("cache_max") is not None:
        t = dict(trace)
        t["cache_max"] = None
        yield t
    for i, step in enumerate(trace["steps"]):
        if step["k"] == "op":
            if step.get("force"):
                s = dict(step)
                s.pop("force")
                yield replace_step(trace, i, s)
            if step.get("sw") != "set_mode_default":
                s = dict(step)
                s["sw"] = "set_mode_default"
                yield replace_step(trace, i, s)
            if "pr" in step:
                s = dict(step)
                s.pop("pr")
                yield replace_step(trace, i, s)


def replace_step(trace, i, step):
    t = dict(trace)
    t["steps"] = trace["steps"][:i] + [step] + trace["steps"][i + 1:]
    return t


def jobs_for(tier, seed):
    if tier == "quick":
        n_dir, n_rand = 42 * 2, 1150
    else:
        n_dir, n_rand = 42 * 6, 60000
    jobs = [("lazyimport", seed, i) for i in range(
        12 if tier == "quick" else 300)]
    jobs += [("directed", seed, i) for i in range(n_dir)]
    rand = [("random", seed, i) for i in range(n_rand)]
    if tier == "quick":
        # longest histories first, so that no marathon starts last (pure
        # generation: no library code is touched)
        rand.sort(key=lambda job: -len(make_trace(job)["steps"]))
    return jobs + rand


def extra_coverage(agg):
    return {"public_api_not_in_operation_table": sorted(
        agg.sets.get("uncovered_api", ())),
        "memo_table_entries_audited": agg.counters.get(
            "cache_entries_audited", 0)}


RULE = (
    "each case is one seeded history: 2-5 clients bound to calendar "
    "spellings, 10-150 interleaved operations plus perturbations (switch "
    "paths, foreign use, refused switch, env var, cache clear, cache shrink, "
    "somebody else's Calendar instance / parsers / dumpers); "
    "evaluations = client operations checked against the fresh-process solo "
    "replay; a case is non-trivial when at least one switch or perturbation "
    "fired between two checked operations, and distinct by the SHA-256 of its "
    "sequence of (actor, op-kind | switch-path | perturbation-kind) with "
    "arguments erased")

ASSUMPTIONS = [
    "a 'fresh process' is a child forked from the orchestrator right after "
    "importing the library (no library call made before the fork)",
    "clients build all their values from primitives under their own "
    "calendar; values never cross calendars",
    "sampling, not enumeration: a clean batch is evidence, not proof",
]


def crosscheck(seed, n=60, workers=16):
    """Thorough tier: bound the 'fresh process = fork of the post-import
    orchestrator' assumption.  For n random traces every client's solo
    history is executed again in a SPAWNED fresh interpreter (cold start:
    imports included) and compared with the forked solo run."""
    import json
    import os
    import subprocess
    import sys
    import tempfile
    jobs = [("random", seed, i) for i in range(n)]

    def one(job):
        trace = make_trace(job)
        used = sorted(set(st["c"] for st in trace["steps"]
                          if st["k"] == "op"))
        fd, path = tempfile.mkstemp(prefix="verif-solo-", suffix=".json")
        with os.fdopen(fd, "w") as out:
            json.dump(trace, out)
        bad = []
        try:
            for cid in used:
                forked = kernel.in_fresh_fork(execute, (trace, cid))
                proc = subprocess.run(
                    [sys.executable,
                     os.path.join(kernel.VERIF_DIR, "check.py"), "_solo",
                     path, str(cid)],
                    capture_output=True, text=True, timeout=600,
                    env=dict(os.environ, VERIF_REPO=kernel.REPO))
                line = [ln for ln in proc.stdout.splitlines()
                        if ln.startswith("SOLO ")]
                if not line:
                    raise kernel.HarnessError(
                        "spawned solo run failed: " + proc.stderr[-300:])
                spawned = json.loads(line[0][5:])
                want = json.loads(json.dumps(forked["transcripts"][cid]))
                if spawned != want:
                    bad.append({"job": list(job), "client": cid})
        finally:
            os.remove(path)
        return {"index": job[2], "counters": {"compared": len(used)},
                "violations": bad}

    class _W(object):
        run_job = staticmethod(one)
    agg = kernel.run_batch(_W, jobs, workers, 3600)
    if agg.harness_errors:
        raise kernel.HarnessError("; ".join(agg.harness_errors[:3]))
    return {"spawn_crosscheck_solo_histories": agg.counters.get(
        "compared", 0), "spawn_crosscheck_mismatches": agg.violations}


def solo_main(path, cid):
    """Entry for the spawned interpreter of crosscheck()."""
    import json
    with open(path) as inp:
        trace = json.load(inp)
    kernel.arm_alarm()
    res = execute(trace, cid)
    print("SOLO " + json.dumps(res["transcripts"][cid]))
    return 0
