"""Proving the simulator before believing it: determinism and sensitivity."""
import json
import os
import shutil
import subprocess
import sys
import tempfile

from . import kernel

VERIF = kernel.VERIF_DIR


def _workload(prop):
    import importlib
    return importlib.import_module("isosim.w_" + prop.lower())


def selftest_jobs(wl, seed, n):
    jobs = wl.jobs_for("quick", seed)
    kinds = []
    for j in jobs:
        if j[0] not in kinds:
            kinds.append(j[0])
    out = []
    per = max(1, n // len(kinds))
    for k in kinds:
        out += [j for j in jobs if j[0] == k][:per]
    return out


def digests(prop, seed, n, workers):
    wl = _workload(prop)
    kernel.import_library()
    agg = kernel.run_batch(wl, selftest_jobs(wl, seed, n), workers, 3600,
                           keep_digests=True)
    if agg.harness_errors:
        raise kernel.HarnessError("; ".join(agg.harness_errors[:3]))
    return agg.digests


def print_digests(prop, seed, n):
    print("DIGESTS " + json.dumps(digests(prop, seed, n, 16),
                                  sort_keys=True))
    return 0


def determinism(props, n=None):
    """Same seed => same event-log digest: twice in one orchestrator, at 1,
    4 and 16 workers, and in fresh interpreters under two PYTHONHASHSEEDs."""
    n = n or int(os.environ.get("VERIF_DET_RUNS", "200"))
    seed = int(os.environ.get("VERIF_SEED", "0"))
    bad = 0
    for prop in props:
        base = digests(prop, seed, n, 16)
        variants = {"again-16": digests(prop, seed, n, 16),
                    "workers-4": digests(prop, seed, n, 4)}
        small = max(8, n // 10)
        variants["workers-1"] = digests(prop, seed, small, 1)
        for hs in ("0", "12345"):
            env = dict(os.environ, PYTHONHASHSEED=hs)
            out = subprocess.run(
                [sys.executable, os.path.join(VERIF, "check.py"), "_digests",
                 prop, str(seed), str(n)],
                env=env, capture_output=True, text=True, timeout=3600)
            line = [ln for ln in out.stdout.splitlines()
                    if ln.startswith("DIGESTS ")]
            if not line:
                print("HARNESS-ERROR: digest subprocess failed: %s" %
                      out.stderr[-500:])
                return 2
            variants["hashseed-" + hs] = json.loads(line[0][8:])
        for name, got in variants.items():
            diff = [k for k in got if base.get(k) != got[k]]
            print("determinism %s %s: %d runs compared, %d differ" % (
                prop, name, len(got), len(diff)))
            if diff:
                print("  differing runs: %s" % diff[:10])
                bad += 1
    if bad:
        print("HARNESS-ERROR: non-determinism detected")
        return 2
    print("determinism: all digests identical")
    return 0


# --------------------------------------------------------------------------
# sensitivity: committed source transforms on a scratch copy

def load_mutants():
    path = os.path.join(VERIF, "mutants", "catalog.json")
    with open(path) as inp:
        return json.load(inp)["mutants"]


def make_scratch(mutant):
    root = tempfile.mkdtemp(prefix="verif-mut-")
    shutil.copytree(os.path.join(kernel.REPO, "metomi"),
                    os.path.join(root, "metomi"),
                    ignore=shutil.ignore_patterns("__pycache__"))
    for name in ("pyproject.toml", "README.md"):
        shutil.copy(os.path.join(kernel.REPO, name), os.path.join(root, name))
    for edit in mutant["edits"]:
        path = os.path.join(root, edit["file"])
        with open(path) as inp:
            src = inp.read()
        if src.count(edit["find"]) != edit.get("count", 1):
            shutil.rmtree(root)
            raise kernel.HarnessError(
                "mutant %s: pattern occurs %d times in %s" % (
                    mutant["id"], src.count(edit["find"]), edit["file"]))
        with open(path, "w") as out:
            out.write(src.replace(edit["find"], edit["replace"]))
    return root


def _limit_memory():
    import resource
    resource.setrlimit(resource.RLIMIT_AS, (4 << 30, 4 << 30))


def run_tests(root):
    env = dict(os.environ, PYTHONPATH=root, PYTHONDONTWRITEBYTECODE="1")
    out = subprocess.run(
        [sys.executable, "-m", "pytest", "-q", "-p", "no:cacheprovider",
         "--timeout=60", "--color=no",
         "--deselect", "metomi/isodatetime/tests/test_main.py::test_pipe"],
        cwd=root, env=env, capture_output=True, text=True, timeout=1800,
        preexec_fn=_limit_memory)
    tail = [ln for ln in out.stdout.strip().splitlines()
            if " passed" in ln or " failed" in ln or " error" in ln][-1:] or [
        out.stdout.strip()[-80:]]
    if ("metomi" + os.sep) not in out.stdout and False:
        pass
    return out.returncode == 0, tail[0].strip("= ")


def mutants(args):
    props = [a for a in args if not a.startswith("-")]
    skip_tests = "--skip-tests" in args
    only_benign = "--benign" in args
    only = [a[5:] for a in args if a.startswith("--id=")]
    results = []
    for mutant in load_mutants():
        if props and mutant["property"] not in props:
            continue
        if only and mutant["id"] not in only:
            continue
        if only_benign and not mutant.get("benign"):
            continue
        root = make_scratch(mutant)
        try:
            tests_ok, tail = (True, "skipped") if skip_tests else (
                run_tests(root))
            env = dict(os.environ, VERIF_REPO=root,
                       VERIF_STOP_ON_VIOLATION="1", VERIF_MIN_BUDGET="30",
                       VERIF_NO_EVIDENCE="1")
            out = subprocess.run(
                [sys.executable, os.path.join(VERIF, "check.py"),
                 mutant["property"], "--tier", "quick"],
                env=env, capture_output=True, text=True, timeout=3600)
            caught = out.returncode == 1 and "VIOLATION property=" in (
                out.stdout)
            line = [ln for ln in out.stdout.splitlines()
                    if ln.startswith("violation:")]
            results.append((mutant, tests_ok, caught))
            print("mutant %-34s tests_pass=%s (%s) caught=%s rc=%d" % (
                mutant["id"], tests_ok, tail[:50], caught, out.returncode))
            if line:
                print("    " + line[0][:300])
            if out.returncode == 2:
                print("    " + out.stdout[-600:])
            sys.stdout.flush()
            # replays of mutants are not findings on /repo: remove them
            for ln in out.stdout.splitlines():
                if ln.startswith("VIOLATION property="):
                    path = ln.split("replay=", 1)[1].strip()
                    if os.path.exists(path):
                        os.remove(path)
        finally:
            shutil.rmtree(root, ignore_errors=True)
    breaking = [r for r in results if not r[0].get("benign")]
    benign = [r for r in results if r[0].get("benign")]
    missed = [m["id"] for m, t, c in breaking if t and not c]
    notvalid = [m["id"] for m, t, c in breaking if not t]
    false_alarms = [m["id"] for m, t, c in benign if c]
    print("sensitivity: %d breaking transforms, %d caught, missed=%s, "
          "killed-by-existing-tests=%s" % (
              len(breaking), sum(1 for _, _, c in breaking if c), missed,
              notvalid))
    print("specificity: %d property-preserving transforms, false alarms=%s"
          % (len(benign), false_alarms))
    return 1 if (missed or false_alarms) else 0
