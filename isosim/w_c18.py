"""C18 -- Unix time and the system's local UTC offset are converted exactly.

The library runs against a simulated system clock and zone database behind
the `time` seam (TimeFacade).  The schedule interleaves library operations
with clock advances / backward jumps, tzset to another zone configuration and
DST flips -- between operations and *inside* them (after the k-th seam read).
The oracle is the reference model in model.py fed with the configuration(s)
the facade actually presented during the operation.
"""
import hashlib

from . import kernel, model, world

PROP = "C18"

OFFSET_MINUTES = [0, 0, 1, -1, 30, -30, 59, -59, 60, -60, 90, -90, 330, 345,
                  -210, -150, 765, 825, -720, 840, 1439, -1439, 1440, -1440,
                  -135, 61, -61, 119, -119]
FMT_MODES = ["normal", "reduced", "extended"]
EXPECTED_PROBES = [
    "neg_offset_zero_hour", "dst_in_effect", "transition_inside_op",
    "stale_instance_reuse", "negative_n", "fractional_n", "non_gregorian",
    "offset_beyond_day", "big_n"]


# --------------------------------------------------------------------------
# generation

def gen_zone(rng):
    std = rng.choice(OFFSET_MINUTES) if rng.random() < 0.8 else (
        rng.randint(-1440, 1440))
    daylight = rng.random() < 0.6
    if daylight:
        dst = std + rng.choice([60, 60, 60, 30, -60, 120, 10, -10, 0])
        dst = max(-1440, min(1440, dst))
        if rng.random() < 0.15:
            dst = rng.randint(-1440, 1440)
        return (-60 * std, -60 * dst, 1)
    if rng.random() < 0.3:
        # daylight flag off while the daylight offset differs (the shape the
        # property's quantifier lists and upstream's own test fixture builds)
        return (-60 * std, -60 * rng.choice(OFFSET_MINUTES), 0)
    return (-60 * std, -60 * std, 0)


def boundary_seconds(rng, mode):
    """Instants around civil boundaries of the run's calendar."""
    y = rng.choice([1970, 1969, 1971, 1972, 1900, 2000, 2001, 2038, 2100,
                    1600, 1, 0, -1, 2400, rng.randint(-3000, 5000)])
    m, d = rng.choice([(1, 1), (3, 1), (2, 28), (12, 30), (12, 31), (2, 29),
                       (7, 1)])
    d = min(d, model.days_in_month(mode, m, y))
    base = model.unix_from_civil(mode, y, m, d, 0, 0, 0)
    return base + rng.choice([0, -1, 1, 86399, -86400, 43200, 59, 3600])


def gen_n(rng, mode, limit=10 ** 10):
    r = rng.random()
    if r < 0.25:
        return rng.choice([0, 1, -1, 59, 60, 86399, 86400, -86399, -86400,
                           -86401, 3600, 31536000, 951782400, 2 ** 31 - 1,
                           2 ** 31, -2 ** 31])
    if r < 0.6:
        n = boundary_seconds(rng, mode)
        if abs(n) <= limit:
            return n
    if r < 0.7 or limit > 10 ** 11:
        return rng.randint(-limit, limit)
    return rng.randint(-4 * 10 ** 9, 4 * 10 ** 9)


def gen_fraction(rng):
    # also just below / above a whole second by less than a microsecond:
    # the whole number of seconds is still the one below (a double keeps
    # 3e-7 s apart from the boundary for |t| <= 1e9)
    return rng.choice([0.5, 0.25, 0.75, 0.000001, 0.999999, 0.1,
                       0.9999997, 0.9999996, 0.0000003,
                       round(rng.random(), 6)])


def gen_point_spec(rng, mode, wide=True):
    """A TimePoint the *model* builds for a known instant."""
    r = rng.random()
    if r < 0.4:
        t = gen_n(rng, mode, limit=10 ** 11)
    elif wide and r < 0.6:
        t = rng.randint(-4 * 10 ** 12, 4 * 10 ** 12)
    else:
        t = rng.randint(-10 ** 10, 10 ** 10)
    off = rng.choice(OFFSET_MINUTES) if rng.random() < 0.7 else rng.randint(
        -(99 * 60 + 59), 99 * 60 + 59)
    y, m, d, H, M, S = model.civil_from_unix(mode, t, off)
    rep = rng.choice(["cal", "cal", "ord", "week"])
    forms = ["hms", "hms"]
    if S in (0, 15, 30, 45):
        forms.append("m_dec")
    if (M * 60 + S) % 900 == 0:
        forms.append("h_dec")
    if H == 0 and M == 0 and S == 0:
        forms += ["24", "24"]
    if abs(t) <= 10 ** 9:
        forms.append("s_frac")   # a double resolves 1 us only up to ~1e9 s
    form = rng.choice(forms)
    frac = gen_fraction(rng) if form == "s_frac" else 0
    return {"t": t, "off": off, "rep": rep, "form": form, "frac": frac,
            "via": rng.choice(["ctor", "ctor", "parse"])}


def gen_op(rng, mode, n_objects):
    kind = rng.choice(["local_tz", "local_tz_fmt", "now", "from_epoch",
                       "from_epoch", "epoch_of", "epoch_of", "to_local",
                       "parse_zoneless", "strptime_s", "strftime_s",
                       "props_from_epoch", "dto_now", "parser_new",
                       "dto_new", "dto_s", "epoch_chain"])
    if kind == "local_tz":
        return ["local_tz"]
    if kind == "local_tz_fmt":
        return ["local_tz_fmt", rng.choice(FMT_MODES)]
    if kind == "now":
        return ["now", rng.random() < 0.4]
    if kind in ("from_epoch", "props_from_epoch", "strptime_s", "dto_s"):
        r_lim = rng.random()
        limit = 2 * 10 ** 12 if r_lim < 0.005 else (
            10 ** 11 if r_lim < 0.10 else 10 ** 10)
        n = gen_n(rng, mode, limit)
        if kind == "from_epoch":
            if n >= 0 and rng.random() < 0.25:
                n = min(n, 10 ** 9) + gen_fraction(rng)
            # the count as an int, an integral float or a numeric string
            # (the %s parsing path hands the library a string)
            as_type = rng.choice(["int"] * 6 + ["float", "float", "str"])
            return ["from_epoch", n, rng.random() < 0.4, as_type]
        if kind == "strptime_s":
            if n < 0:
                n = -n
            return ["strptime_s", n, rng.randrange(max(1, n_objects))]
        if kind == "dto_s":
            # the count read by a long-lived operator with --parse-format=%s
            # (four conversions per operation: kept below 1e11 s, a
            # conversion of 2e12 s costs most of a second)
            return ["dto_s", abs(n) % 10 ** 11, rng.random() < 0.5]
        return ["props_from_epoch", n]
    if kind == "epoch_of":
        return ["epoch_of", gen_point_spec(rng, mode)]
    if kind == "epoch_chain":
        # the second count is read, the point is moved (by whole years,
        # months, days; to another zone or representation) and the count of
        # each derived point is read again
        spec = gen_point_spec(rng, mode, wide=False)
        spec.update(rep="cal", form="hms", frac=0)
        return ["epoch_chain", spec, rng.choice([1, 4, -1, 30, -100]),
                rng.choice([1, 11, 12, -13]), rng.choice([1, 365, -59])]
    if kind == "strftime_s":
        spec = gen_point_spec(rng, mode, wide=False)
        return ["strftime_s", spec]
    if kind == "to_local":
        return ["to_local", gen_point_spec(rng, mode, wide=False)]
    if kind == "parse_zoneless":
        t = rng.randint(-10 ** 9, 4 * 10 ** 9)
        return ["parse_zoneless", t, rng.choice(["ext", "basic", "date"]),
                rng.randrange(max(1, n_objects))]
    if kind == "dto_now":
        return ["dto_now", rng.randrange(max(1, n_objects)),
                rng.choice([None, None, "PT1H", "-P1D"])]
    if kind == "parser_new":
        # parsers come in configurations: the zone assumed for zone-less
        # text is one of them (it must not touch text that has a zone, nor
        # a count of seconds since the epoch)
        return ["parser_new", rng.choice([0, 0, 1, 1, 2, 3])]
    return ["dto_new", rng.random() < 0.3]


def gen_action(rng, nzones):
    r = rng.random()
    if r < 0.3:
        return ["tzset", rng.randrange(nzones)]
    if r < 0.6:
        return ["dst", rng.choice([0, 1])]
    mag = rng.choice([1, 999, 10 ** 6, 3600 * 10 ** 6, 86400 * 10 ** 6,
                      366 * 86400 * 10 ** 6, 36525 * 86400 * 10 ** 6])
    delta = rng.randint(0, mag)
    if rng.random() < 0.3:
        delta = -delta
    return ["jump", delta]


def gen_random(rng, index):
    mode = "gregorian" if rng.random() < 0.7 else rng.choice(
        model.SPELLINGS[1:])
    nzones = rng.randint(2, 4)
    zones = [gen_zone(rng) for _ in range(nzones)]
    start = rng.choice([0, 946684800, 1700000000, 2 ** 31 - 5, -86400 * 3,
                        rng.randint(-10 ** 9, 4 * 10 ** 9)])
    start_us = start * 10 ** 6 + rng.randrange(10 ** 6)
    nsteps = rng.randint(20, 100)
    p_pert = rng.choice([0.05, 0.15, 0.3, 0.5])
    p_inop = rng.choice([0.0, 0.1, 0.3])
    steps = []
    n_objects = 0
    # calendar switches inside a run (each operation names the calendar it is
    # built for; the executor switches when the world is in another one)
    modes = [mode]
    if rng.random() < 0.35:
        modes += rng.sample(model.SPELLINGS, rng.choice([1, 2]))
    p_mode = rng.choice([0.05, 0.2])
    cur_mode = mode
    for _ in range(nsteps):
        if rng.random() < p_pert:
            steps.append({"k": "pert", "act": gen_action(rng, nzones)})
            continue
        if len(modes) > 1 and rng.random() < p_mode:
            cur_mode = rng.choice(modes)
        op = gen_op(rng, cur_mode, n_objects)
        if op[0] in ("parser_new", "dto_new"):
            n_objects += 1
        step = {"k": "op", "op": op, "mode": cur_mode}
        if rng.random() < p_inop:
            step["inop"] = [[rng.randint(1, 6), gen_action(rng, nzones)]
                            for _ in range(rng.choice([1, 1, 2]))]
        steps.append(step)
    return {"property": PROP, "kind": "random", "index": index,
            "mode": mode, "zones": zones, "cur": rng.randrange(nzones),
            "isdst": rng.choice([0, 1]), "start_us": start_us,
            "steps": steps}


def gen_grid(rng, index):
    """Directed family: one zone configuration per trace, every operation
    once with dst off and on -- a systematic sweep of whole-minute offsets
    (index -> standard offset) that random runs only sample."""
    std = ((index * 7) % 2881) - 1440          # coprime stride covers all
    dst = max(-1440, min(1440, std + [60, 30, -60, 1, -1, 0][index % 6]))
    if (index // 2881) % 3 == 1:
        dst = 0         # daylight time exactly UTC (Azores, Casablanca)
    elif (index // 2881) % 3 == 2:
        dst = -std      # standard and daylight offsets of opposite sign
    zones = [(-60 * std, -60 * dst, 1), (-60 * dst, -60 * dst, 0)]
    steps = []
    for isdst in (0, 1):
        steps.append({"k": "pert", "act": ["dst", isdst]})
        steps.append({"k": "op", "op": ["local_tz"]})
        for fm in FMT_MODES:
            steps.append({"k": "op", "op": ["local_tz_fmt", fm]})
        steps.append({"k": "op", "op": ["from_epoch",
                                        gen_n(rng, "gregorian"), False]})
        steps.append({"k": "op", "op": ["now", False]})
        steps.append({"k": "op", "op": ["to_local",
                                        gen_point_spec(rng, "gregorian",
                                                       wide=False)]})
        steps.append({"k": "op", "op": ["parser_new"]})
        steps.append({"k": "op", "op": ["parse_zoneless", 86400 * index,
                                        "ext", 0]})
        # a parser that assumes a zone for zone-less text: a count of seconds
        # is not zone-less text
        steps.append({"k": "op", "op": ["parser_new", 1 + index % 3]})
        steps.append({"k": "op", "op": ["strptime_s", 86400 * index + 3600 * (
            index % 24), 1]})
        steps.append({"k": "op", "op": ["parse_zoneless", 86400 * index,
                                        "ext", 1]})
        steps.append({"k": "op", "op": ["dto_s", 86400 * index + 59,
                                        bool(isdst)]})
        steps.append({"k": "pert", "act": ["tzset", 1]})
        steps.append({"k": "op", "op": ["local_tz"]})
        steps.append({"k": "op", "op": ["parse_zoneless", 86400 * index,
                                        "basic", 0]})
        steps.append({"k": "pert", "act": ["tzset", 0]})
    return {"property": PROP, "kind": "grid", "index": index,
            "mode": "gregorian", "zones": zones, "cur": 0, "isdst": 0,
            "start_us": (946684800 + index * 86400) * 10 ** 6, "steps": steps}


EDGE_YEARS = [1968, 1969, 1970, 1971, 1972, 1900, 1899, 1901, 2000, 1999,
              2001, 2100, 2024, 2023, 2038, 1600, 400, 4, 1, 0, -1, -4, 9999,
              10000, 1800, 2200, 2020, 2015]
EDGE_OFFSETS = [0, 1, -1, 330, -210, 720, -720, 1439, -1439, 1440, -1500,
                5999]


def gen_edges(rng, index):
    """Directed family: civil boundaries (year ends, the days around a leap
    day) x representations x TimePoint offsets, each as seconds_since_unix_
    epoch, strftime %s and to_local_time_zone -- the places where tick-over
    code runs -- in every check, not only when random instants land there."""
    year = EDGE_YEARS[index % len(EDGE_YEARS)]
    variant = index // len(EDGE_YEARS)
    mode = ["gregorian", "gregorian", "360day", "365_day", "366day"][
        variant % 5]
    zones = [(0, 0, 0), (-19800, -23400, 1), (12600, 9000, 1)]
    steps = [{"k": "pert", "act": ["tzset", variant % 3]},
             {"k": "pert", "act": ["dst", variant % 2]}]
    # (ISO week-years begin between 29 December and 4 January)
    days = [(1, 1), (1, 3), (2, 28), (3, 1), (12, 29), (12, 30)]
    if model.days_in_month(mode, 2, year) >= 29:
        days.append((2, 29))
    if model.days_in_month(mode, 12, year) >= 31:
        days.append((12, 31))
    for (m, d) in days:
        for H, M, S in ((0, 0, 0), (0, 30, 0), (23, 59, 59)):
            for off in EDGE_OFFSETS:
                t = model.unix_from_civil(mode, year, m, d, H, M, S, off)
                if abs(t) > 2 * 10 ** 11:
                    wide = True
                else:
                    wide = False
                for rep in ("cal", "ord", "week"):
                    spec = {"t": t, "off": off, "rep": rep, "form": "hms",
                            "frac": 0, "via": "ctor"}
                    steps.append({"k": "op", "op": ["epoch_of", spec],
                                  "mode": mode})
                    if not wide:
                        steps.append({"k": "op", "op": ["to_local", spec],
                                      "mode": mode})
                if H == 0 and M == 0:
                    spec24 = {"t": t, "off": off, "rep": "cal", "form": "24",
                              "frac": 0, "via": "ctor"}
                    steps.append({"k": "op", "op": ["epoch_of", spec24],
                                  "mode": mode})
    # second counts tens of millennia away ("many millennia either side")
    if index < 6:
        for n in ([10 ** 12, -10 ** 12, 999999999999, 10 ** 12 + 86399,
                   -10 ** 12 - 1, 1234567890123][index % 6::6]):
            steps.append({"k": "op", "op": ["from_epoch", n, True],
                          "mode": mode})
            steps.append({"k": "op", "op": ["from_epoch", n, False],
                          "mode": mode})
            steps.append({"k": "op", "op": ["props_from_epoch", n],
                          "mode": mode})
            if n >= 0:
                steps.append({"k": "op", "op": ["parser_new"], "mode": mode})
                steps.append({"k": "op", "op": ["strptime_s", n, 0],
                              "mode": mode})
    # second counts at the boundaries of the arithmetic itself: whole numbers
    # of weeks, years, 4/100/400-year cycles and 2800-year blocks away from
    # the epoch (in the calendar whose cycle it is), a day and a second
    # either side -- where a shortcut over "whole cycles" would cut
    cyc = cycle_counts()
    for cmode, n in cyc[index % 56::56]:
        steps.append({"k": "op", "op": ["from_epoch", n, True],
                      "mode": cmode})
        steps.append({"k": "op", "op": ["from_epoch", n, False],
                      "mode": cmode})
        steps.append({"k": "op", "op": ["props_from_epoch", n],
                      "mode": cmode})
        if n >= 0:
            steps.append({"k": "op", "op": ["parser_new"], "mode": cmode})
            steps.append({"k": "op", "op": ["strptime_s", n, 0],
                          "mode": cmode})
    return {"property": PROP, "kind": "edges", "index": index, "mode": mode,
            "zones": zones, "cur": 0, "isdst": 0,
            "start_us": 946684800 * 10 ** 6, "steps": steps}


CYCLE_DAYS = [(7, "gregorian"), (360, "360day"), (365, "365day"),
              (366, "366day"), (365, "gregorian"), (1461, "gregorian"),
              (36524, "gregorian"), (36525, "gregorian"),
              (146097, "gregorian"), (144000, "360day"), (146000, "365day"),
              (146400, "366day"), (1022679, "gregorian"),
              (1008000, "360day")]


def cycle_counts():
    out = []
    for days, mode in CYCLE_DAYS:
        for k in (1, -1, 2):
            for d in (-86400, -1, 0, 1, 86399, 86400):
                out.append((mode, k * days * 86400 + d))
    return out


# --------------------------------------------------------------------------
# execution

def fmt_year(y):
    if 0 <= y <= 9999:
        return "%04d" % y
    return "%s%06d" % ("-" if y < 0 else "+", abs(y))


def build_point(spec, mode, shared):
    """Construct the TimePoint for spec via the constructor or the parser;
    returns (point, exact instant as (int seconds, fraction))."""
    from metomi.isodatetime import data
    t, off = spec["t"], spec["off"]
    y, m, d, H, M, S = model.civil_from_unix(mode, t, off)
    form = spec["form"]
    if form == "24":
        # the same instant written as 24:00 of the previous day
        y, m, d, _, _, _ = model.civil_from_unix(mode, t - 86400, off)
        H, M, S = 24, 0, 0
    dn = model.to_daynum(mode, y, m, d)
    kw = {}
    if spec["rep"] == "cal":
        kw.update(year=y, month_of_year=m, day_of_month=d)
        date_txt = "%s-%02d-%02d" % (fmt_year(y), m, d)
    elif spec["rep"] == "ord":
        doy = model.ordinal_of(mode, y, m, d)
        kw.update(year=y, day_of_year=doy)
        date_txt = "%s-%03d" % (fmt_year(y), doy)
    else:
        wy, w, wd = model.week_date(mode, dn)
        kw.update(year=wy, week_of_year=w, day_of_week=wd)
        date_txt = "%s-W%02d-%d" % (fmt_year(wy), w, wd)
    if not 0 <= kw["year"] <= 9999:
        kw["num_expanded_year_digits"] = 2
    sign = -1 if off < 0 else 1
    tzh, tzm = sign * (abs(off) // 60), sign * (abs(off) % 60)
    kw.update(time_zone_hour=tzh, time_zone_minute=tzm)
    tz_txt = "Z" if off == 0 else "%s%02d:%02d" % (
        "-" if off < 0 else "+", abs(off) // 60, abs(off) % 60)
    frac = 0
    if form in ("hms", "24"):
        kw.update(hour_of_day=H, minute_of_hour=M, second_of_minute=S)
        time_txt = "T%02d:%02d:%02d" % (H, M, S)
    elif form == "s_frac":
        frac = spec["frac"]
        kw.update(hour_of_day=H, minute_of_hour=M, second_of_minute=S,
                  second_of_minute_decimal=frac)
        time_txt = "T%02d:%02d:%02d,%s" % (
            H, M, S, ("%.7f" % frac)[2:].rstrip("0") or "0")
    elif form == "m_dec":
        kw.update(hour_of_day=H, minute_of_hour=M,
                  minute_of_hour_decimal=S / 60.0)
        time_txt = "T%02d:%02d,%s" % (H, M, ("%.2f" % (S / 60.0))[2:])
    else:  # h_dec
        dec = (M * 60 + S) / 3600.0
        kw.update(hour_of_day=H, hour_of_day_decimal=dec)
        time_txt = "T%02d,%s" % (H, ("%.2f" % dec)[2:])
    if spec["via"] == "parse":
        point = shared["explicit_parser"].parse(date_txt + time_txt + tz_txt)
    else:
        point = data.TimePoint(**kw)
    return point, frac


def point_instant(p, mode):
    """(unix seconds as float, offset minutes, problems) of a TimePoint,
    from its own public fields and the reference calendar."""
    problems = []
    tz = p.time_zone
    off = tz.hours * 60 + tz.minutes
    if (tz.hours > 0 and tz.minutes < 0) or (tz.hours < 0 and tz.minutes > 0):
        problems.append("zone parts of opposite sign: %r,%r" % (
            tz.hours, tz.minutes))
    if abs(tz.minutes) > 59:
        problems.append("zone minutes out of range: %r" % tz.minutes)
    H, M, S = p.get_hour_minute_second()
    if not ((0 <= H < 24 and 0 <= M < 60 and 0 <= S < 60) or
            (H == 24 and M == 0 and S == 0)):   # 24:00 is a legal spelling
        problems.append("time of day out of range: %r:%r:%r" % (H, M, S))
    y = p.year
    try:
        if p.get_is_calendar_date():
            m, d = p.month_of_year, p.day_of_month
            if not (1 <= m <= 12 and 1 <= d <= model.days_in_month(
                    mode, m, y)):
                problems.append("not a day of the calendar: %r-%r-%r" % (
                    y, m, d))
            dn = model.to_daynum(mode, y, m, d)
        elif p.get_is_ordinal_date():
            doy = p.day_of_year
            if not 1 <= doy <= model.days_in_year(mode, y):
                problems.append("not a day of the year: %r-%r" % (y, doy))
            dn = model.days_before_year(mode, y) + doy - 1
        else:
            w, wd = p.week_of_year, p.day_of_week
            if not (1 <= w <= model.weeks_in_year(mode, y) and 1 <= wd <= 7):
                problems.append("not a day of the week-year: %r-W%r-%r" % (
                    y, w, wd))
            dn = model.from_week_date(mode, y, w, wd)
    except Exception as exc:   # fields so wrong the model cannot place them
        problems.append("unplaceable date: %s" % exc)
        return None, off, problems
    whole = (dn - model.epoch_daynum(mode)) * 86400 + int(H) * 3600 + (
        int(M) * 60) - 60 * off
    sec = (H - int(H)) * 3600 + (M - int(M)) * 60 + S
    return (whole, sec), off, problems


def close(instant, want_whole, want_frac, tol=2e-5):
    whole, sec = instant
    return abs((whole - want_whole) + (sec - want_frac)) <= tol


class Sim(object):
    def __init__(self, trace):
        self.trace = trace
        self.mode = trace["mode"]
        self.violations = []
        self.counters = {}
        self.results = []
        self.sig = []
        self.states = set()
        self.objects = []       # long-lived parsers / operators
        self.dto_s = {}
        self.dto_s_born = {}
        self.picked_assumed = None
        self.facade = None
        self.sim_time_us = 0
        self.n_span = 0

    def count(self, key, n=1):
        self.counters[key] = self.counters.get(key, 0) + n

    def violate(self, cls, opkind, step_no, **extra):
        v = {"class": cls, "opkind": opkind, "step": step_no}
        v.update(extra)
        self.violations.append(v)

    # ---- what the world presented during the operation
    def seen_configs(self, before):
        cfgs = [before]
        for _, _, cfg in self.facade.log:
            if cfg not in cfgs:
                cfgs.append(cfg)
        after = self.facade.config()
        if after not in cfgs:
            cfgs.append(after)
        return cfgs

    def allowed_offsets(self, before):
        """Whole-second local offsets the operation may legitimately have
        used.  Without an in-operation transition: exactly the model's value
        for the one configuration.  With one: the value before or after; to
        stay independent of the order in which an implementation reads the
        four seam attributes, any standard/daylight value of a configuration
        presented during the operation is accepted."""
        if not self.facade.fired:
            return [model.local_offset_seconds(*before)]
        out = []
        for tz, alt, dl, isdst in self.seen_configs(before):
            for val in (-tz, -alt):
                if val not in out:
                    out.append(val)
        return out

    def check_offset_pair(self, pair, before, opkind, step_no, what):
        allowed = self.allowed_offsets(before)
        ok = False
        for secs in allowed:
            if secs % 60 == 0 and tuple(pair) == model.split_offset(secs):
                ok = True
        if not ok:
            self.violate("local_offset", opkind, step_no, what=what,
                         got=list(pair),
                         want_any_of=[list(model.split_offset(s))
                                      for s in allowed],
                         config=list(before),
                         transitions_inside=len(self.facade.fired))
        return ok

    def check_point(self, p, opkind, step_no, want_whole, want_frac,
                    before, zone, tol=2e-5):
        """p must denote instant want_whole+want_frac, have in-range fields
        and carry `zone` ('utc', 'local' or minutes)."""
        inst, off, problems = point_instant(p, self.mode)
        for pr in problems:
            self.violate("fields_range", opkind, step_no, problem=pr,
                         point=safe_str(p))
        if inst is not None and want_whole is not None and not close(
                inst, want_whole, want_frac, tol):
            self.violate("instant", opkind, step_no, point=safe_str(p),
                         got_unix=[inst[0], repr(inst[1])],
                         want_unix=[want_whole, repr(want_frac)],
                         mode=self.mode)
        tz = p.time_zone
        if zone == "utc":
            if (tz.hours, tz.minutes) != (0, 0):
                self.violate("zone", opkind, step_no, got=[tz.hours,
                                                           tz.minutes],
                             want=[0, 0])
        elif zone == "local":
            self.check_offset_pair((tz.hours, tz.minutes), before, opkind,
                                   step_no, "zone carried by result")
        elif zone is not None:
            if off != zone:
                self.violate("zone", opkind, step_no, got=off, want=zone)
        return inst, off

    # ---- operations
    def do_op(self, op, step_no, before):
        from metomi.isodatetime import data, timezone, parsers
        from metomi.isodatetime.datetimeoper import DateTimeOperator
        kind = op[0]
        fac = self.facade
        if kind == "local_tz":
            pair = timezone.get_local_time_zone()
            self.check_offset_pair(pair, before, kind, step_no, "pair")
            if pair[0] == 0 and pair[1] < 0:
                self.count("probe.neg_offset_zero_hour")
            if abs(pair[0]) >= 24:
                self.count("probe.offset_beyond_day")
            return list(pair)
        if kind == "local_tz_fmt":
            text = timezone.get_local_time_zone_format(op[1])
            allowed = self.allowed_offsets(before)
            wants = [model.offset_text(*model.split_offset(s), mode=op[1])
                     for s in allowed if s % 60 == 0]
            if text not in wants:
                self.violate("offset_text", kind, step_no, got=text,
                             want_any_of=wants, fmt=op[1],
                             config=list(before))
            return text
        if kind == "now":
            p = data.get_timepoint_for_now(utc=op[1])
            served = [v for n, v, _ in fac.log if n == "time"]
            if len(served) >= 1:
                ok = False
                for val in served:
                    us = int(round(val * 1e6))
                    inst, off, _ = point_instant(p, self.mode)
                    if inst is not None and close(
                            inst, us // 10 ** 6, (us % 10 ** 6) / 1e6, 5e-5):
                        ok = True
                if not ok:
                    self.violate("instant", kind, step_no, point=safe_str(p),
                                 served_time=[repr(v) for v in served])
            self.check_point(p, kind, step_no, None, 0, before,
                             "utc" if op[1] else "local")
            return safe_str(p)
        if kind == "from_epoch":
            n, utc = op[1], op[2]
            arg = n
            if len(op) > 3 and op[3] == "float" and abs(n) < 2 ** 53:
                arg = float(n)
            elif len(op) > 3 and op[3] == "str":
                arg = repr(n)
            p = data.get_timepoint_from_seconds_since_unix_epoch(
                arg, utc=utc)
            whole = int(n // 1)
            self.check_point(p, kind, step_no, whole, n - whole, before,
                             "utc" if utc else "local")
            self.note_n(n)
            return safe_str(p)
        if kind == "props_from_epoch":
            n = op[1]
            props = data.get_timepoint_properties_from_seconds_since_unix_epoch(
                n)
            p = data.TimePoint(**{k: v for k, v in props.items()
                                  if v is not None})
            whole = int(n // 1)
            self.check_point(p, kind, step_no, whole, n - whole, before,
                             "local")
            self.note_n(n)
            return safe_str(p)
        if kind == "epoch_of":
            spec = op[1]
            p, frac = build_point(spec, self.mode, self.shared)
            got = p.seconds_since_unix_epoch
            want = [spec["t"]]
            if frac and spec["t"] < 0:
                want.append(spec["t"] + 1)     # truncation toward zero
            try:
                got_int = int(got)
            except (TypeError, ValueError):
                got_int = None
            if got_int not in want:
                self.violate("epoch_seconds", kind, step_no, got=got,
                             want=want, spec=spec, point=safe_str(p),
                             mode=self.mode)
            self.note_n(spec["t"])
            if abs(spec["off"]) >= 1440:
                self.count("probe.offset_beyond_day")
            return str(got)
        if kind == "epoch_chain":
            spec, ky, km, nd = op[1], op[2], op[3], op[4]
            p, _ = build_point(spec, self.mode, self.shared)
            t, off = spec["t"], spec["off"]
            y, m, d, H, M, S = model.civil_from_unix(self.mode, t, off)
            steps = [("self", p, t)]
            first = int(p.seconds_since_unix_epoch)
            if d <= 28:
                y2 = y + ky
                steps.append(("years", p + data.Duration(years=ky),
                              model.unix_from_civil(self.mode, y2, m, d, H,
                                                    M, S, off)))
                idx = (y * 12 + (m - 1)) + km
                steps.append(("months", p + data.Duration(months=km),
                              model.unix_from_civil(
                                  self.mode, idx // 12, idx % 12 + 1, d, H,
                                  M, S, off)))
                steps.append(("years_back", steps[1][1] - data.Duration(
                    years=ky), t))
            steps.append(("days", p + data.Duration(days=nd),
                          t + 86400 * nd))
            steps.append(("utc", p.to_utc(), t))
            steps.append(("week", p.to_week_date(), t))
            steps.append(("zone", p.to_time_zone(data.TimeZone(
                hours=5, minutes=30)), t))
            out = [first]
            for name, q, want in steps:
                got = int(q.seconds_since_unix_epoch)
                got2 = int(q.strftime("%s"))
                out.append(got)
                if got != want or got2 != want:
                    self.violate("epoch_seconds", kind, step_no, got=[got,
                                                                     got2],
                                 want=want, derived_by=name, spec=spec,
                                 point=safe_str(q), mode=self.mode)
            self.note_n(t)
            return out
        if kind == "strftime_s":
            spec = op[1]
            p, frac = build_point(spec, self.mode, self.shared)
            got = p.strftime("%s")
            want = [str(spec["t"])]
            if frac and spec["t"] < 0:
                want.append(str(spec["t"] + 1))
            if got not in want:
                self.violate("epoch_seconds", kind, step_no, got=got,
                             want=want, spec=spec, mode=self.mode)
            return got
        if kind == "to_local":
            spec = op[1]
            p, frac = build_point(spec, self.mode, self.shared)
            q = p.to_local_time_zone()
            self.check_point(q, kind, step_no, spec["t"], frac, before,
                             "local")
            return safe_str(q)
        if kind == "parser_new":
            variant = op[1] if len(op) > 1 else 0
            assumed = {0: None, 1: (0, 0), 2: (5, 30), 3: (-8, 0)}[variant]
            if assumed is None:
                parser = parsers.TimePointParser()
            else:
                parser = parsers.TimePointParser(
                    assumed_time_zone=assumed,
                    allow_truncated=variant == 3)
                self.count("probe.parser_with_assumed_zone")
            self.objects.append(("parser", parser, fac.config(), assumed))
            return "NEW"
        if kind == "dto_new":
            saved_mode = data.Calendar.default().mode
            self.objects.append(("dto", DateTimeOperator(
                utc_mode=op[1], calendar_mode=saved_mode), fac.config()))
            return "NEW"
        if kind == "parse_zoneless":
            parser = self.pick("parser", op[3], before)
            if parser is None:
                return "NOOBJ"
            t = op[1]
            y, m, d, H, M, S = model.civil_from_unix(self.mode, t, 0)
            if op[2] == "ext":
                text = "%s-%02d-%02dT%02d:%02d:%02d" % (
                    fmt_year(y), m, d, H, M, S)
            elif op[2] == "basic":
                text = "%s%02d%02dT%02d%02d%02d" % (
                    fmt_year(y), m, d, H, M, S)
            else:
                text = "%s-%02d-%02d" % (fmt_year(y), m, d)
                t -= H * 3600 + M * 60 + S
            p = parser.parse(text)
            tz = p.time_zone
            assumed = self.picked_assumed
            if assumed is not None:
                if (tz.hours, tz.minutes) != tuple(assumed):
                    self.violate("local_offset", kind, step_no,
                                 what="assumed zone of parse",
                                 got=[tz.hours, tz.minutes],
                                 want_any_of=[list(assumed)])
                else:
                    off = tz.hours * 60 + tz.minutes
                    self.check_point(p, kind, step_no, t - 60 * off, 0,
                                     before, None)
            elif self.check_offset_pair((tz.hours, tz.minutes), before, kind,
                                        step_no, "default zone of parse"):
                # the civil fields are exactly those written
                off = tz.hours * 60 + tz.minutes
                self.check_point(p, kind, step_no, t - 60 * off, 0, before,
                                 None)
            return safe_str(p)
        if kind == "strptime_s":
            parser = self.pick("parser", op[2], before)
            if parser is None:
                return "NOOBJ"
            n = op[1]
            text = repr(n) if isinstance(n, float) else str(n)
            p = parser.strptime(text, "%s")
            whole = int(n // 1)
            self.check_point(p, kind, step_no, whole, n - whole, before,
                             "local")
            self.note_n(n)
            return safe_str(p)
        if kind == "dto_s":
            n, utc = op[1], op[2]
            dto = self.dto_s.get(utc)
            if dto is None:
                dto = self.dto_s[utc] = DateTimeOperator(
                    utc_mode=utc, parse_format="%s",
                    calendar_mode=data.Calendar.default().mode)
            elif self.dto_s_born.get(utc) != before:
                self.count("probe.stale_instance_reuse")
            self.dto_s_born.setdefault(utc, before)
            outs = [dto.process_time_point_str(str(n)),
                    dto.process_time_point_str(str(n), None, "%s"),
                    dto.process_time_point_str(str(n), ["PT1M"], "%s")]
            want = [str(n), str(n), str(n + 60)]
            if outs != want:
                self.violate("epoch_seconds", kind, step_no, got=outs,
                             want=want, utc_mode=utc, mode=self.mode)
            y = model.civil_from_unix(self.mode, n, 0)[0]
            if utc and 0 <= y <= 9999:
                got = dto.process_time_point_str(
                    str(n), None, "CCYY-MM-DDThh:mm:ssZ")
                f = model.civil_from_unix(self.mode, n, 0)
                wtxt = "%04d-%02d-%02dT%02d:%02d:%02dZ" % tuple(f)
                if got != wtxt:
                    self.violate("instant", kind, step_no, got=got,
                                 want=wtxt, n=n, mode=self.mode)
            self.note_n(n)
            return outs
        if kind == "dto_now":
            dto = self.pick("dto", op[1], before)
            if dto is None:
                return "NOOBJ"
            out = dto.process_time_point_str(
                None if step_no % 2 else "now", [op[2]] if op[2] else None)
            self.check_now_text(out, dto.utc_mode, op[2], before, step_no)
            return out
        raise kernel.HarnessError("unknown op %r" % (op,))

    def check_now_text(self, out, utc_mode, offset, before, step_no):
        """'now' is printed as CCYY-MM-DDThh:mm:ss then Z or +hh:mm: the
        served clock value (floored to the second), shifted by the offset, in
        UTC or the local zone."""
        import re
        m = re.match(r"^(\d{4})-(\d\d)-(\d\d)T(\d\d):(\d\d):(\d\d)"
                     r"(Z|[+-]\d\d:\d\d)$", out)
        served = [v for n, v, _ in self.facade.log if n == "time"]
        if not m:
            years = [model.civil_from_unix(self.mode, int(v), 0)[0]
                     for v in served]
            if any(y < 0 or y > 9999 for y in years):
                return
            self.violate("now_text", "dto_now", step_no, got=out)
            return
        y, mo, d, H, M, S = [int(g) for g in m.groups()[:6]]
        ztxt = m.group(7)
        if ztxt == "Z":
            off = 0
        else:
            off = (int(ztxt[1:3]) * 60 + int(ztxt[4:6])) * (
                -1 if ztxt[0] == "-" else 1)
        if utc_mode:
            allowed = [0]
        else:
            allowed = [s // 60 for s in self.allowed_offsets(before)
                       if s % 60 == 0]
        if off not in allowed:
            self.violate("local_offset", "dto_now", step_no, got=ztxt,
                         want_any_of_minutes=allowed, config=list(before))
            return
        try:
            got = model.unix_from_civil(self.mode, y, mo, d, H, M, S, off)
        except Exception:
            self.violate("fields_range", "dto_now", step_no, got=out)
            return
        shift = {None: 0, "PT1H": 3600, "-P1D": -86400}[offset]
        wants = [int(v // 1) + shift for v in served]
        if got not in wants:
            self.violate("instant", "dto_now", step_no, got=out,
                         got_unix=got, want_unix_any_of=wants)

    def pick(self, kind, index, before):
        objs = [o for o in self.objects if o[0] == kind]
        if not objs:
            return None
        entry = objs[index % len(objs)]
        obj, born = entry[1], entry[2]
        self.picked_assumed = entry[3] if len(entry) > 3 else None
        if born != before:
            self.count("probe.stale_instance_reuse")
        return obj

    def note_n(self, n):
        if n < 0:
            self.count("probe.negative_n")
        if n != int(n):
            self.count("probe.fractional_n")
        if abs(n) > 5 * 10 ** 10:
            self.count("probe.big_n")
        self.n_span = max(self.n_span, abs(int(n)))

    def select_mode(self, mode, salt):
        """Select the calendar, a third of the time under another case of
        its name ('Gregorian', '360DAY': set_mode looks names up
        case-insensitively); an implementation that refuses such a spelling
        is given the plain one."""
        from metomi.isodatetime import data
        spelled = [mode, mode, mode.capitalize(), mode.upper()][salt % 4]
        try:
            data.Calendar.default().set_mode(spelled)
            if spelled != mode:
                self.count("probe.mode_name_other_case")
        except Exception:
            data.Calendar.default().set_mode(mode)

    # ---- main loop
    def run(self):
        from metomi.isodatetime import data, parsers
        trace = self.trace
        clock = world.SimClock(trace["start_us"])
        self.facade = world.TimeFacade(clock, trace["zones"], trace["cur"],
                                       trace["isdst"],
                                       trace.get("with_gmtoff", True))
        world.install_time(self.facade)
        world.set_env(world.ENV_CAL, None)
        world.set_env(world.ENV_REF, None)
        with kernel.guarded():
            self.select_mode(self.mode, trace.get("index", 0))
        self.shared = {"explicit_parser": parsers.TimePointParser(
            assumed_time_zone=(0, 0))}
        if model.BASE[self.mode] != "gregorian":
            self.count("probe.non_gregorian")
        for step_no, step in enumerate(trace["steps"]):
            if step["k"] == "pert":
                self.facade.begin_op()
                self.facade.apply(step["act"])
                self.count("fault." + step["act"][0])
                self.sig.append("p:" + step["act"][0])
                continue
            op = step["op"]
            want_mode = step.get("mode", trace["mode"])
            if want_mode != self.mode:
                with kernel.guarded():
                    self.select_mode(want_mode, step_no)
                self.mode = want_mode
                self.count("fault.calendar_switch")
                self.sig.append("p:mode")
                if model.BASE[want_mode] != "gregorian":
                    self.count("probe.non_gregorian")
            before = self.facade.config()
            self.facade.begin_op(step.get("inop", ()))
            try:
                with kernel.guarded():
                    res = self.do_op(op, step_no, before)
            except kernel.Hang:
                res = "HANG"
                self.violate("hang", op[0], step_no, op=op)
            except kernel.HarnessError:
                raise
            except Exception as exc:
                res = "EXC:%s:%s" % (type(exc).__name__, exc)
                if not self.legit_refusal(op, exc):
                    self.violate("exception", op[0], step_no, op=op,
                                 error=res[:300], config=list(before))
            if self.facade.fired:
                self.count("probe.transition_inside_op")
                for _, act in self.facade.fired:
                    self.count("fault.inop_" + act[0])
                self.sig.append("i:" + ",".join(
                    a[0] for _, a in self.facade.fired))
            if before[3] == 1 and before[2]:
                self.count("probe.dst_in_effect")
            self.results.append([step_no, res])
            self.count("ops")
            self.count("op." + op[0])
            self.sig.append("o:" + op[0])
            self.states.add("%s|%s|%s" % (before, self.mode, op[0]))
        self.sim_time_us = clock.moved_us
        return self

    def legit_refusal(self, op, exc):
        """Operations that may legitimately raise: a point whose year the
        default four-digit notation cannot print (only raised by dumping)."""
        return False


def safe_str(p):
    try:
        return str(p)
    except Exception as exc:
        return "!str:%s:%s" % (type(exc).__name__, exc)


def execute(trace):
    kernel.import_library()
    if trace.get("alarm"):
        kernel.CALL_ALARM_S = trace["alarm"]
    sim = Sim(trace).run()
    return {"results": sim.results, "violations": sim.violations,
            "counters": sim.counters, "sig": sim.sig,
            "states": sorted(sim.states), "sim_time_us": sim.sim_time_us,
            "n_span": sim.n_span, "reads": sim.facade.total_reads,
            "unsimulated": sorted(set(sim.facade.unsimulated))}


def gen_hostzone(rng, index):
    """A random history run in an interpreter that was STARTED in a zone
    that is not UTC: the library is imported (and anything it sets up at
    import time is set up) under that zone, the simulated world then starts
    in the same zone and moves away from it and back."""
    trace = gen_random(rng, index)
    west = kernel.HOST_ZONES_WEST[index % len(kernel.HOST_ZONES_WEST)]
    zones = [list(z) for z in trace["zones"]]
    zones[0] = [west, west, 0]
    steps = []
    dst_rule = index % 4 == 3
    if dst_rule:
        # a zone that defines daylight saving (standard +01:00, daylight
        # +02:00, in effect February to November): the library is imported
        # under a definition with altzone != timezone, and the flag then
        # flips while the definition stays the same
        zones[0] = [-3600, -7200, 1]
    for i, step in enumerate(trace["steps"]):
        steps.append(step)
        if i % 7 == 6:
            steps.append({"k": "pert", "act": ["tzset", 0]})
            steps.append({"k": "pert", "act": [
                "dst", (i // 7) % 2 if dst_rule else 0]})
    trace.update(kind="hostzone", zones=zones, cur=0, isdst=0,
                 host_tz=kernel.posix_tz(
                     west, ["XST", "UTC", "GMT"][index % 3]), steps=steps)
    if dst_rule:
        trace.update(host_tz="XST-1XDT-2,J32/0,J334/0", host_dst_rule=True)
    return trace


def check_trace_full(trace):
    if trace.get("host_tz"):
        res = kernel.run_in_host_zone(PROP, trace)
    else:
        res = kernel.in_fresh_fork(
            execute, (trace,), timeout=1500 if trace.get("alarm") else 300)
    if any(v.get("class") == "hang" for v in res["violations"]) and (
            not trace.get("alarm")):
        # the per-call alarm is the one place real time enters: a call that
        # timed out is decided again with a six-fold alarm before it counts
        return check_trace_full(dict(trace, alarm=6 * kernel.CALL_ALARM_S))
    counters = dict(res["counters"])
    counters["simulated_time_covered_s"] = (
        res["sim_time_us"] // 10 ** 6 + res["n_span"])
    counters["seam_reads"] = res["reads"]
    for name in res["unsimulated"]:
        counters["unmodelled_time_attribute_read." + name] = 1
    dig = kernel.digest([res["results"], res["violations"]])
    sig = hashlib.sha256("|".join(res["sig"]).encode()).hexdigest()[:16]
    nontrivial = any(s.startswith(("p:", "i:")) for s in res["sig"])
    return res["violations"], {
        "counters": counters, "digest": dig, "sig": sig,
        "nontrivial": nontrivial, "states": res["states"]}


def check_trace(trace):
    return check_trace_full(trace)[0]


def make_trace(job):
    kind, seed, index = job
    rng = kernel.run_rng(PROP, seed, index, kind)
    if kind == "grid":
        return gen_grid(rng, index)
    if kind == "edges":
        return gen_edges(rng, index)
    if kind == "hostzone":
        return gen_hostzone(rng, index)
    return gen_random(rng, index)


def abbreviate(trace, n=8):
    t = dict(trace)
    t["steps"] = trace["steps"][:n]
    t["steps_total"] = len(trace["steps"])
    return t


def run_job(job):
    trace = make_trace(job)
    violations, info = check_trace_full(trace)
    res = {"index": "%s:%s" % (job[0], job[2]), "counters": info["counters"],
           "digest": info["digest"], "sets": {"states": info["states"]},
           "violations": [dict(v, job=list(job)) for v in violations]}
    res["counters"]["runs." + job[0]] = 1
    if info["nontrivial"]:
        res["sets"]["sigs"] = [info["sig"]]
    if job[2] < 2:
        res["sample"] = abbreviate(trace)
    return res


def prune(trace):
    return trace


def shrink_candidates(trace):
    for i, step in enumerate(trace["steps"]):
        if step["k"] == "op" and step.get("inop"):
            s = dict(step)
            s.pop("inop")
            t = dict(trace)
            t["steps"] = trace["steps"][:i] + [s] + trace["steps"][i + 1:]
            yield t

    if trace["isdst"]:
        t = dict(trace)
        t["isdst"] = 0
        yield t
    if len(trace["zones"]) > 1:
        for i in range(len(trace["zones"])):
            t = dict(trace)
            t["zones"] = [trace["zones"][i]]
            t["cur"] = 0
            yield t


def jobs_for(tier, seed):
    if tier == "quick":
        n_grid, n_rand = 2881, 2500
    else:
        n_grid, n_rand = 2881 * 6, 100000
    n_edges = len(EDGE_YEARS) * (2 if tier == "quick" else 10)
    jobs = [("hostzone", seed, i) for i in range(
        20 if tier == "quick" else 600)]
    jobs += [("edges", seed, i) for i in range(n_edges)]
    jobs += [("grid", seed, i) for i in range(n_grid)]
    jobs += [("random", seed, i) for i in range(n_rand)]
    return jobs


def extra_coverage(agg):
    return {"simulated_time_covered_s":
            agg.counters.get("simulated_time_covered_s", 0),
            "simulated_time_covered_years": int(
                agg.counters.get("simulated_time_covered_s", 0) / 31556952),
            "seam_reads_served": agg.counters.get("seam_reads", 0)}


RULE = (
    "each case is one seeded history of 20-100 library operations against "
    "the simulated clock/zone seam, interleaved with clock advances and "
    "backward jumps, tzset and DST flips placed between and inside "
    "operations (grid cases sweep every whole-minute standard offset in "
    "+-24h); evaluations = operations checked against the reference model; a "
    "case is non-trivial when at least one perturbation fired, and distinct "
    "by the SHA-256 of its sequence of operation kinds and fired "
    "perturbation kinds")

ASSUMPTIONS = [
    "the system zone configuration reaches the library only through "
    "time.timezone / altzone / daylight / localtime().tm_isdst and the "
    "clock through time.time (seams S3/S4)",
    "after an in-operation transition any standard/daylight offset of a "
    "configuration presented during the operation is accepted",
    "fractional instants are compared to 2e-5 s; |n| <= 1e9 for fractional "
    "n so that a double resolves a microsecond",
    "sampling, not enumeration: a clean batch is evidence, not proof",
]
