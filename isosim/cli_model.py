"""Model side of the CLI check (C19): ISO 8601 notations as data, rendering
of civil fields in a notation, validity of written fields under a calendar
mode, durations.  No import of the library under test.

A notation is a dict:
  date:   cal_ext cal_bas ord_ext ord_bas week_ext week_bas   (complete)
          ym y c yw_ext yw_bas                                 (reduced, no time)
  ystyle: ccyy | x          (x = sign + 2 expanded digits + CCYY)
  time:   None | hms hms_dec hm_dec h_dec hm h
  dec:    "," | "."
  zone:   None | Z | hh | hhmm     (hhmm is +hh:mm in extended notation)
"""
from fractions import Fraction

from . import model

EXT_DATES = ("cal_ext", "ord_ext", "week_ext")
BAS_DATES = ("cal_bas", "ord_bas", "week_bas")
REDUCED = ("ym", "y", "c", "yw_ext", "yw_bas")
TIMES = ("hms", "hms_dec", "hm_dec", "h_dec", "hm", "h")


def is_ext(notation):
    return notation["date"] in EXT_DATES


def rep_of(notation):
    d = notation["date"]
    if d.startswith("cal") or d in ("ym", "y", "c"):
        return "cal"
    if d.startswith("ord"):
        return "ord"
    return "week"


def year_text(y, style):
    if style == "ccyy":
        if not 0 <= y <= 9999:
            return None
        return "%04d" % y
    if abs(y) > 999999:
        return None
    return "%s%06d" % ("-" if y < 0 else "+", abs(y))


def decstr(frac):
    """Decimal digits the library's dumper prints for a fraction in [0,1):
    six places, trailing zeros stripped, at least one digit; never rounds up
    into the next unit."""
    frac = Fraction(frac)
    if frac >= Fraction(9999995, 10000000):
        return "999999"
    scaled = frac * 10 ** 6
    n = int(scaled)
    rem = scaled - n
    if rem > Fraction(1, 2) or (rem == Fraction(1, 2) and n % 2):
        n += 1
    s = ("%06d" % n).rstrip("0")
    return s or "0"


def render_date(notation, f):
    d = notation["date"]
    if d == "c":
        if not 0 <= f["y"] <= 9999:
            return None
        return "%02d" % (f["y"] // 100)
    if rep_of(notation) == "week":
        ytxt = year_text(f["wy"], notation["ystyle"])
    else:
        ytxt = year_text(f["y"], notation["ystyle"])
    if ytxt is None:
        return None
    if d == "cal_ext":
        return "%s-%02d-%02d" % (ytxt, f["m"], f["d"])
    if d == "cal_bas":
        return "%s%02d%02d" % (ytxt, f["m"], f["d"])
    if d == "ord_ext":
        return "%s-%03d" % (ytxt, f["doy"])
    if d == "ord_bas":
        return "%s%03d" % (ytxt, f["doy"])
    if d == "week_ext":
        return "%s-W%02d-%d" % (ytxt, f["w"], f["wd"])
    if d == "week_bas":
        return "%sW%02d%d" % (ytxt, f["w"], f["wd"])
    if d == "ym":
        return "%s-%02d" % (ytxt, f["m"])
    if d == "y":
        return ytxt
    if d == "yw_ext":
        return "%s-W%02d" % (ytxt, f["w"])
    if d == "yw_bas":
        return "%sW%02d" % (ytxt, f["w"])
    raise ValueError(d)


def render_time(notation, f):
    t = notation["time"]
    sep = ":" if is_ext(notation) else ""
    dec = notation.get("dec") or ","
    H, M, S, us = f["H"], f["M"], f["S"], f.get("us", 0)
    if t == "hms":
        return "%02d%s%02d%s%02d" % (H, sep, M, sep, S)
    if t == "hms_dec":
        return "%02d%s%02d%s%02d%s%s" % (
            H, sep, M, sep, S, dec, decstr(Fraction(us, 10 ** 6)))
    if t == "hm_dec":
        return "%02d%s%02d%s%s" % (
            H, sep, M, dec, decstr(Fraction(S * 10 ** 6 + us, 60 * 10 ** 6)))
    if t == "h_dec":
        return "%02d%s%s" % (H, dec, decstr(
            Fraction((M * 60 + S) * 10 ** 6 + us, 3600 * 10 ** 6)))
    if t == "hm":
        return "%02d%s%02d" % (H, sep, M)
    if t == "h":
        return "%02d" % H
    raise ValueError(t)


def render_zone(notation, off):
    z = notation["zone"]
    if z is None:
        return ""
    if z == "Z":
        if off != 0:
            # a Z notation forces UTC; callers convert before rendering
            raise ValueError("Z notation with non-zero offset")
        return "Z"
    sign = "-" if off < 0 else "+"
    hh, mm = abs(off) // 60, abs(off) % 60
    if z == "hh":
        return "%s%02d" % (sign, hh)
    if is_ext(notation):
        return "%s%02d:%02d" % (sign, hh, mm)
    return "%s%02d%02d" % (sign, hh, mm)


def render(notation, f, off):
    """Text of civil fields f (zone offset `off` minutes) in notation, or
    None when the notation cannot print them (year out of its range)."""
    date = render_date(notation, f)
    if date is None:
        return None
    if notation["time"] is None:
        return date
    return date + "T" + render_time(notation, f) + render_zone(notation, off)


# --------------------------------------------------------------------------
# written fields -> validity and instant; instant -> civil fields

def written_valid(w, mode):
    """Are the fields as written a real date-time of the calendar mode?"""
    rep = w["rep"]
    y = w["y"]
    if rep == "cal":
        if not 1 <= w["m"] <= 12:
            return False
        if not 1 <= w["d"] <= model.days_in_month(mode, w["m"], y):
            return False
    elif rep == "ord":
        if not 1 <= w["doy"] <= model.days_in_year(mode, y):
            return False
    else:
        if not 1 <= w["w"] <= model.weeks_in_year(mode, y):
            return False
        if not 1 <= w["wd"] <= 7:
            return False
    H, M, S = w.get("H", 0), w.get("M", 0), w.get("S", 0)
    if H == 24:
        return M == 0 and S == 0 and w.get("us", 0) == 0
    return 0 <= H < 24 and 0 <= M < 60 and 0 <= S < 60


def written_instant_us(w, mode, off):
    """Microseconds since the Unix epoch of the written fields read in zone
    offset `off` minutes."""
    if w["rep"] == "cal":
        dn = model.to_daynum(mode, w["y"], w["m"], w["d"])
    elif w["rep"] == "ord":
        dn = model.days_before_year(mode, w["y"]) + w["doy"] - 1
    else:
        dn = model.from_week_date(mode, w["y"], w["w"], w["wd"])
    secs = (dn - model.epoch_daynum(mode)) * 86400 + w.get("H", 0) * 3600 + (
        w.get("M", 0) * 60 + w.get("S", 0)) - 60 * off
    return secs * 10 ** 6 + w.get("us", 0)


def civil_fields(mode, t_us, off):
    """All civil fields of instant t_us (microseconds) in zone `off`."""
    secs, us = divmod(t_us, 10 ** 6)
    local = secs + 60 * off
    days, sod = divmod(local, 86400)
    dn = model.epoch_daynum(mode) + days
    y, m, d = model.from_daynum(mode, dn)
    wy, w, wd = model.week_date(mode, dn)
    return {"y": y, "m": m, "d": d, "doy": model.ordinal_of(mode, y, m, d),
            "wy": wy, "w": w, "wd": wd, "H": sod // 3600,
            "M": (sod // 60) % 60, "S": sod % 60, "us": us}


# --------------------------------------------------------------------------
# durations (exact units only on the model side)

UNIT_US = {"W": 7 * 86400 * 10 ** 6, "D": 86400 * 10 ** 6,
           "H": 3600 * 10 ** 6, "M": 60 * 10 ** 6, "S": 10 ** 6}


def duration_us(parts, negative=False):
    """parts: list of (number as str, unit) with unit in W D H M S; exact."""
    total = Fraction(0)
    for num, unit in parts:
        total += Fraction(num.replace(",", ".")) * UNIT_US[unit]
    if total.denominator != 1:
        raise ValueError("sub-microsecond duration")
    return -int(total) if negative else int(total)


def duration_text(parts, negative=False):
    """ISO text of (number, unit) parts, date units before T."""
    if len(parts) == 1 and parts[0][1] == "W":
        body = "P%sW" % parts[0][0]
    else:
        date = "".join("%s%s" % p for p in parts if p[1] == "D")
        tm = "".join("%s%s" % p for p in parts if p[1] in "HMS")
        body = "P" + date + ("T" + tm if tm else "")
    return ("-" if negative else "") + body


def parse_printed_duration(text):
    """Microseconds of a duration as the CLI prints it: [-]PnDTnHnMnS with an
    optional decimal fraction on numbers, PnW, or P0Y.  None if it is not of
    that shape or uses nominal units."""
    import re
    neg = text.startswith("-")
    body = text[1:] if neg else text
    if body == "P0Y":
        return 0
    m = re.match(r"^P(?:(\d+)W)$", body)
    if m:
        us = int(m.group(1)) * UNIT_US["W"]
        return -us if neg else us
    num = r"(\d+(?:[,.]\d+)?(?:[eE][-+]?\d+)?)"
    m = re.match(r"^P(?:(\d+)D)?(?:T(?:%sH)?(?:%sM)?(?:%sS)?)?$" % (
        num, num, num), body)
    if not m or body in ("P", "PT"):
        return None
    total = Fraction(0)
    for val, unit in zip(m.groups(), "DHMS"):
        if val:
            total += Fraction(val.replace(",", ".")) * UNIT_US[unit]
    us = int(round(total))
    return -us if neg else us


# --------------------------------------------------------------------------
# the documented strftime/strptime subset: %Y %m %d %j %H %M %S %F %X %z %s

def render_strf(fmt, f, off, t_us):
    """Text of civil fields f (zone offset `off` minutes, instant t_us) under
    a POSIX-style format; None if the year cannot be printed as %Y."""
    out = []
    i = 0
    while i < len(fmt):
        ch = fmt[i]
        if ch != "%" or i + 1 >= len(fmt):
            out.append(ch)
            i += 1
            continue
        d = fmt[i + 1]
        i += 2
        if d in "YF":
            if not 0 <= f["y"] <= 9999:
                return None
        if d == "Y":
            out.append("%04d" % f["y"])
        elif d == "m":
            out.append("%02d" % f["m"])
        elif d == "d":
            out.append("%02d" % f["d"])
        elif d == "j":
            out.append("%03d" % f["doy"])
        elif d == "H":
            out.append("%02d" % f["H"])
        elif d == "M":
            out.append("%02d" % f["M"])
        elif d == "S":
            out.append("%02d" % f["S"])
        elif d == "F":
            out.append("%04d-%02d-%02d" % (f["y"], f["m"], f["d"]))
        elif d == "X":
            out.append("%02d:%02d:%02d" % (f["H"], f["M"], f["S"]))
        elif d == "z":
            out.append("%s%02d%02d" % ("-" if off < 0 else "+",
                                       abs(off) // 60, abs(off) % 60))
        elif d == "s":
            out.append("%d" % (t_us // 10 ** 6))
        elif d == "f":
            # microseconds, as the standard library's strftime prints them
            if not 1000 <= f["y"] <= 9999:
                return None
            out.append("%06d" % f["us"])
        elif d in "aAbBy":
            # directives only the standard library's strftime knows (the
            # operator falls back to it): C locale names, gregorian dates in
            # the years 1000-9999 only
            if not 1000 <= f["y"] <= 9999:
                return None
            out.append({"a": WEEKDAY_ABBR[f["wd"] - 1],
                        "A": WEEKDAY_FULL[f["wd"] - 1],
                        "b": MONTH_ABBR[f["m"] - 1],
                        "B": MONTH_FULL[f["m"] - 1],
                        "y": "%02d" % (f["y"] % 100)}[d])
        else:
            raise ValueError("directive %%%s not modelled" % d)
    return "".join(out)


def split_printed_numbers(text):
    """The numbers of a printed duration under a y/m/d/h/M/s print format,
    and its sign."""
    import re
    neg = text.startswith("-")
    nums = [Fraction(x) for x in re.findall(
        r"\d+(?:\.\d+)?(?:e[-+]?\d+)?", text)]
    return neg, nums


WEEKDAY_ABBR = ["Mon", "Tue", "Wed", "Thu", "Fri", "Sat", "Sun"]
MONTH_ABBR = ["Jan", "Feb", "Mar", "Apr", "May", "Jun", "Jul", "Aug", "Sep",
              "Oct", "Nov", "Dec"]


def render_ctime(f):
    """C `ctime` notation with a zero-padded day: '%a %b %d %H:%M:%S %Y'
    (gregorian, years 1000-9999 only)."""
    if not 1000 <= f["y"] <= 9999:
        return None
    return "%s %s %02d %02d:%02d:%02d %04d" % (
        WEEKDAY_ABBR[f["wd"] - 1], MONTH_ABBR[f["m"] - 1], f["d"], f["H"],
        f["M"], f["S"], f["y"])

WEEKDAY_FULL = ["Monday", "Tuesday", "Wednesday", "Thursday", "Friday",
                "Saturday", "Sunday"]
MONTH_FULL = ["January", "February", "March", "April", "May", "June", "July",
              "August", "September", "October", "November", "December"]


def render_unix_date(f):
    """Unix `date` notation in UTC: '%a %d %b %H:%M:%S UTC %Y'."""
    if not 1000 <= f["y"] <= 9999:
        return None
    return "%s %02d %s %02d:%02d:%02d UTC %04d" % (
        WEEKDAY_ABBR[f["wd"] - 1], f["d"], MONTH_ABBR[f["m"] - 1], f["H"],
        f["M"], f["S"], f["y"])


# --------------------------------------------------------------------------
# month / year offsets: calendar rules with end-of-period clamping
# (a mixed duration applies its exact part first, then months, then years;
# each single-month step clamps the day to the month's length; a year step
# keeps month and day (29 Feb -> 28 Feb), the ordinal day (366 -> 365) or
# the ISO week and weekday (week 53 -> the year's last week), according to
# the representation; time of day and zone are untouched)

def parse_designator_duration(text):
    """{'neg', 'Y', 'M', 'us'} of a designator-notation duration with
    integer year/month parts, or None."""
    import re
    neg = text.startswith("-")
    body = text.lstrip("+-")
    m = re.match(r"^P(?:(\d+)Y)?(?:(\d+)M)?(?:(\d+)W)?(?:(\d+)D)?"
                 r"(?:T(?:(\d+(?:[,.]\d+)?)H)?(?:(\d+(?:[,.]\d+)?)M)?"
                 r"(?:(\d+(?:[,.]\d+)?)S)?)?$", body)
    if not m or body in ("P", "PT"):
        return None
    y, mo, w, d, hh, mi, ss = m.groups()
    total = Fraction(0)
    for val, unit in ((w, "W"), (d, "D"), (hh, "H"), (mi, "M"), (ss, "S")):
        if val:
            total += Fraction(val.replace(",", ".")) * UNIT_US[unit]
    if total.denominator != 1:
        return None
    return {"neg": neg, "Y": int(y or 0), "M": int(mo or 0),
            "us": int(total)}


def shift_local(mode, rep, dn, us_of_day, dur):
    """Apply one duration to a local civil position (day number + time of
    day in microseconds) held in representation `rep`; returns the new
    (dn, us_of_day)."""
    sign = -1 if dur["neg"] else 1
    total = dn * UNIT_US["D"] + us_of_day + sign * dur["us"]
    dn, us_of_day = divmod(total, UNIT_US["D"])
    months, years = sign * dur["M"], sign * dur["Y"]
    if months:
        y, m, d = model.from_daynum(mode, dn)
        for _ in range(abs(months)):
            m += 1 if months > 0 else -1
            if m > 12:
                m, y = 1, y + 1
            elif m < 1:
                m, y = 12, y - 1
            d = min(d, model.days_in_month(mode, m, y))
        dn = model.to_daynum(mode, y, m, d)
    if years:
        if rep == "cal":
            y, m, d = model.from_daynum(mode, dn)
            y += years
            d = min(d, model.days_in_month(mode, m, y))
            dn = model.to_daynum(mode, y, m, d)
        elif rep == "ord":
            y, m, d = model.from_daynum(mode, dn)
            doy = model.ordinal_of(mode, y, m, d)
            y += years
            doy = min(doy, model.days_in_year(mode, y))
            dn = model.days_before_year(mode, y) + doy - 1
        else:
            wy, w, wd = model.week_date(mode, dn)
            wy += years
            w = min(w, model.weeks_in_year(mode, wy))
            dn = model.from_week_date(mode, wy, w, wd)
    return dn, us_of_day


def shift_instant(mode, rep, t_us, off, durations):
    """Instant t_us, seen in zone `off` minutes and representation `rep`,
    shifted by each duration in turn; returns the new instant."""
    local = t_us + off * UNIT_US["M"]
    days, us_of_day = divmod(local, UNIT_US["D"])
    dn = model.epoch_daynum(mode) + days
    for dur in durations:
        dn, us_of_day = shift_local(mode, rep, dn, us_of_day, dur)
    return ((dn - model.epoch_daynum(mode)) * UNIT_US["D"] + us_of_day
            - off * UNIT_US["M"])
