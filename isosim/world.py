"""The simulated environment: clock, zone database, stdio, env vars, caches.

Installed inside a forked run child only.  The library sees:
  * metomi.isodatetime.timezone.time  -> TimeFacade (timezone/altzone/daylight/
    localtime()/time())           [seam S3/S4]
  * time.time                     -> TimeFacade.time   [seam S3]
  * sys.stdin / sys.stdout / sys.stderr -> in-memory streams for CLI calls [S6]
  * os.environ ISODATETIMEREF / ISODATETIMECALENDAR set by the sim [S5]
  * lru_cache tables cleared / re-wrapped with a small maxsize [S2]
"""
import io
import os
import sys
import time as _real_time_module
from functools import lru_cache

ENV_REF = "ISODATETIMEREF"
ENV_CAL = "ISODATETIMECALENDAR"


class _StructTime(object):
    """What localtime() returns in the simulated world: the DST flag, and --
    for an implementation that prefers them -- the matching tm_gmtoff /
    tm_zone of the configuration in force."""
    __slots__ = ("tm_isdst", "tm_gmtoff", "tm_zone")

    def __init__(self, isdst, gmtoff, name="SIM"):
        self.tm_isdst = isdst
        self.tm_gmtoff = gmtoff
        self.tm_zone = name


class _BareStructTime(object):
    """localtime() result that only knows the DST flag."""
    __slots__ = ("tm_isdst",)

    def __init__(self, isdst):
        self.tm_isdst = isdst


class SimClock(object):
    """Integer microseconds since the Unix epoch; moves only when told to,
    plus one microsecond per read so that successive reads are ordered."""

    def __init__(self, now_us=0):
        self.now_us = now_us
        self.moved_us = 0

    def advance(self, delta_us):
        self.now_us += delta_us
        self.moved_us += abs(delta_us)

    def read(self):
        val = self.now_us
        self.now_us += 1
        return val


class TimeFacade(object):
    """Stands in for the `time` module as seen by the library.

    zones: list of (timezone, altzone, daylight) configurations; `cur` is the
    index of the one in force; `isdst` is what localtime().tm_isdst reports.
    Every read is logged with the value served.  `pending` is a list of
    (k, action) in-operation transitions: after the k-th seam read of the
    current operation, apply action.
    """

    def __init__(self, clock, zones, cur=0, isdst=0, with_gmtoff=True):
        self.clock = clock
        # whether localtime() results carry tm_gmtoff / tm_zone (the real
        # struct_time does on Linux; a hand-made stand-in, such as the
        # upstream test fixture, need not)
        self.with_gmtoff = with_gmtoff
        self.zones = [tuple(z) for z in zones]
        self.cur = cur
        self.isdst = isdst
        self.log = []          # reads during the current operation
        self.total_reads = 0
        self.pending = []
        self.fired = []        # transitions that fired inside the current op
        self.unsimulated = []

    # -- sim side
    def begin_op(self, pending=()):
        self.log = []
        self.fired = []
        self.pending = sorted([list(p) for p in pending], key=lambda p: p[0])

    def config(self):
        tz, alt, dl = self.zones[self.cur]
        return (tz, alt, dl, self.isdst)

    def apply(self, action):
        kind = action[0]
        if kind == "tzset":
            self.cur = action[1] % len(self.zones)
        elif kind == "dst":
            self.isdst = action[1]
        elif kind == "jump":
            self.clock.advance(action[1])
        else:
            raise ValueError(action)

    def _served(self, name, value):
        self.log.append((name, value, self.config()))
        self.total_reads += 1
        while self.pending and self.pending[0][0] <= len(self.log):
            _, action = self.pending.pop(0)
            self.apply(action)
            self.fired.append((len(self.log), tuple(action)))
        return value

    # -- library side
    @property
    def timezone(self):
        return self._served("timezone", self.zones[self.cur][0])

    @property
    def altzone(self):
        return self._served("altzone", self.zones[self.cur][1])

    @property
    def daylight(self):
        return self._served("daylight", self.zones[self.cur][2])

    def localtime(self, secs=None):
        tz, alt, dl = self.zones[self.cur]
        gmtoff = -alt if (self.isdst == 1 and dl) else -tz
        if not self.with_gmtoff:
            return _BareStructTime(self._served("isdst", self.isdst))
        return _StructTime(self._served("isdst", self.isdst), gmtoff,
                           self.zone_name())

    # A zone's abbreviation says nothing about its offset: TZ=UTC-3 is a
    # zone called 'UTC' three hours east of Greenwich, and there are zones
    # called 'GMT', 'Z' or nothing at all.
    ZONE_NAMES = ["UTC", "SIM", "GMT", "XST", "Z", "", "CET", "+0530"]

    def zone_name(self):
        tz, alt, dl = self.zones[self.cur]
        pick = (abs(tz) // 60 + 3 * self.cur + (
            5 if (self.isdst == 1 and dl) else 0))
        return self.ZONE_NAMES[pick % len(self.ZONE_NAMES)]

    @property
    def tzname(self):
        saved = self.isdst
        try:
            self.isdst = 0
            std = self.zone_name()
            self.isdst = 1
            dst = self.zone_name()
        finally:
            self.isdst = saved
        return (std, dst)

    def __getattr__(self, name):
        # anything else an implementation may want from `time` (strptime,
        # struct_time, ...) is the real thing; counted so that evidence shows
        # if the library starts reading an attribute the world does not model
        if name.startswith("__"):
            raise AttributeError(name)
        self.unsimulated.append(name)
        return getattr(_real_time_module, name)

    def time(self):
        us = self.clock.read()
        return self._served("time", us / 1e6)


def install_time(facade):
    """Point the library's time seams at the facade (in a run child)."""
    import time
    import metomi.isodatetime.timezone as tzmod
    tzmod.time = facade
    time.time = facade.time


def fixed_utc_world(offset_minutes=0):
    """A world whose local zone never changes (UTC unless told otherwise)."""
    west = -60 * offset_minutes
    facade = TimeFacade(SimClock(946684800 * 10 ** 6), [(west, west, 0)])
    install_time(facade)
    return facade


# --------------------------------------------------------------------------
# stdio

class Stdio(object):
    def __init__(self, stdin_text=""):
        self.stdin_text = stdin_text

    def __enter__(self):
        self.saved = (sys.stdin, sys.stdout, sys.stderr)
        self.out = io.StringIO()
        self.err = io.StringIO()
        sys.stdin = io.StringIO(self.stdin_text)
        sys.stdout = self.out
        sys.stderr = self.err
        return self

    def __exit__(self, *exc):
        sys.stdin, sys.stdout, sys.stderr = self.saved
        return False


def run_cli(argv, stdin_text="", entry="argv"):
    """Run the CLI in-process.  entry='argv' calls main(argv); entry=
    'sys.argv' is how the installed console script and `python -m` enter:
    sys.argv is set and main() is called without arguments.  Returns
    (status, stdout, stderr) where status is 'ok', 'exit0', 'exit:<code>',
    'exitmsg:<message>' or 'raise:<type>:<message> @<file>:<function>'."""
    from metomi.isodatetime.main import main
    saved_argv = sys.argv
    with Stdio(stdin_text) as io_:
        try:
            if entry == "sys.argv":
                # exactly what the generated console script does:
                #     sys.exit(main())
                # -- a value returned by main() becomes the exit status
                # (and, if it is not an integer, text on stderr)
                sys.argv = ["isodatetime"] + list(argv)
                returned = main()
                if returned is not None:
                    raise SystemExit(returned)
            else:
                main(list(argv))
            status = "ok"
        except SystemExit as exc:
            code = exc.code
            if code is None or code == 0:
                status = "exit0"
            elif isinstance(code, int):
                status = "exit:%d" % code
            else:
                status = "exitmsg:%s" % (code,)
        except BaseException as exc:  # a traceback for a real user
            if type(exc).__name__ == "Hang":
                sys.argv = saved_argv
                raise
            # ... and where it came from (innermost frame), so that a known
            # finding can be identified by its call site
            tb = exc.__traceback__
            while tb is not None and tb.tb_next is not None:
                tb = tb.tb_next
            where = "?" if tb is None else "%s:%s" % (
                os.path.basename(tb.tb_frame.f_code.co_filename),
                tb.tb_frame.f_code.co_name)
            status = "raise:%s:%s @%s" % (type(exc).__name__, exc, where)
        finally:
            sys.argv = saved_argv
    return status, io_.out.getvalue(), io_.err.getvalue()


# --------------------------------------------------------------------------
# environment variables

def set_env(name, value):
    if value is None:
        os.environ.pop(name, None)
    else:
        os.environ[name] = value


# --------------------------------------------------------------------------
# memo caches

def discover_caches():
    """Every lru_cache object reachable from the library's modules:
    {name: (owner, attribute)}; discovered, not hard-coded, so that a cache
    added later is covered too."""
    import metomi.isodatetime.data as data
    import metomi.isodatetime.dumpers as dumpers
    import metomi.isodatetime.parsers as parsers
    import metomi.isodatetime.parser_spec as parser_spec
    import metomi.isodatetime.timezone as tzmod
    import metomi.isodatetime.datetimeoper as oper
    found = {}
    for mod in (data, dumpers, parsers, parser_spec, tzmod, oper):
        short = mod.__name__.rsplit(".", 1)[1]
        for name, obj in sorted(vars(mod).items()):
            if hasattr(obj, "cache_clear") and hasattr(obj, "__wrapped__"):
                found["%s.%s" % (short, name)] = (mod, name)
            elif isinstance(obj, type) and obj.__module__ == mod.__name__:
                for aname, aobj in sorted(vars(obj).items()):
                    if (hasattr(aobj, "cache_clear") and
                            hasattr(aobj, "__wrapped__")):
                        found["%s.%s.%s" % (short, name, aname)] = (
                            obj, aname)
    return found


def clear_caches(names=None):
    caches = discover_caches()
    cleared = 0
    for key, (owner, attr) in caches.items():
        if names is None or key in names:
            getattr(owner, attr).cache_clear()
            cleared += 1
    return cleared


def shrink_caches(maxsize):
    """Re-wrap every discovered lru_cache helper with a tiny maxsize so that
    the eviction / miss path becomes the common path."""
    caches = discover_caches()
    for key, (owner, attr) in caches.items():
        wrapped = getattr(owner, attr).__wrapped__
        setattr(owner, attr, lru_cache(maxsize=maxsize)(wrapped))
    return len(caches)


def record_cache_fills(log, ctx, limit=200000):
    """Put a recorder under every discovered module-level lru_cache: each
    value that is computed -- and so goes into the table -- is logged as
    (cache name, args, kwargs, value, index of the calendar-mode argument or
    None, context) -- a plain append, capped, so that the cost stays
    negligible even when a tiny table makes every call a miss.  The table itself stays a real lru_cache of
    the same size."""
    import functools
    import inspect
    n = 0
    for key, (owner, attr) in sorted(discover_caches().items()):
        if isinstance(owner, type):
            continue        # per-instance method caches: not keyed by mode
        cache = getattr(owner, attr)
        fn = cache.__wrapped__
        if getattr(fn, "_isosim_recorder", False):
            continue
        try:
            maxsize = cache.cache_info().maxsize
        except Exception:
            maxsize = 100000
        try:
            names = list(inspect.signature(fn).parameters)
            mode_at = names.index("_") if "_" in names else None
        except (TypeError, ValueError):
            mode_at = None

        def make(fn, key, mode_at):
            @functools.wraps(fn)
            def recorder(*args, **kwargs):
                value = fn(*args, **kwargs)
                if len(log) < limit:
                    log.append((key, args, kwargs, value, mode_at, ctx[0]))
                return value
            recorder._isosim_recorder = True
            return recorder
        setattr(owner, attr, lru_cache(maxsize=maxsize)(make(fn, key,
                                                             mode_at)))
        n += 1
    return n


def cache_stats():
    out = {}
    for key, (owner, attr) in discover_caches().items():
        try:
            info = getattr(owner, attr).cache_info()
            out[key] = (info.hits, info.misses, info.currsize)
        except Exception:      # a cache that keeps no statistics
            out[key] = (0, 0, 0)
    return out
