"""Tiny reference models.  Pure Python, no import of the library under test.

* calendar tables and day-number arithmetic per calendar mode
* the local-UTC-offset semantics of a system zone configuration
* the environment semantics of the CLI (calendar precedence, ref, utc)

Everything here is written from the property texts (C15/C18/C19), not from
the implementation.
"""

SPELLINGS = ["gregorian", "360day", "360_day", "365day", "365_day",
             "366day", "366_day"]
BASE = {"gregorian": "gregorian",
        "360day": "360day", "360_day": "360day",
        "365day": "365day", "365_day": "365day",
        "366day": "366day", "366_day": "366day"}
CLI_CHOICES = ["360day", "365day", "366day", "gregorian"]
EQUIV = {"360day": "360_day", "360_day": "360day",
         "365day": "365_day", "365_day": "365day",
         "366day": "366_day", "366_day": "366day",
         "gregorian": "gregorian"}

M365 = (31, 28, 31, 30, 31, 30, 31, 31, 30, 31, 30, 31)
M366 = (31, 29, 31, 30, 31, 30, 31, 31, 30, 31, 30, 31)
M360 = (30,) * 12


def base(spelling):
    return BASE[spelling]


def greg_leap(y):
    return y % 4 == 0 and (y % 100 != 0 or y % 400 == 0)


def month_lengths(mode, y):
    b = BASE[mode]
    if b == "360day":
        return M360
    if b == "365day":
        return M365
    if b == "366day":
        return M366
    return M366 if greg_leap(y) else M365


def days_in_year(mode, y):
    return sum(month_lengths(mode, y))


def days_in_month(mode, m, y):
    return month_lengths(mode, y)[m - 1]


def days_before_year(mode, y):
    """Days from 0000-01-01 to y-01-01 (negative for y < 0)."""
    b = BASE[mode]
    if b == "360day":
        return 360 * y
    if b == "365day":
        return 365 * y
    if b == "366day":
        return 366 * y
    # leap years in [0, y) for y >= 0, or -(leap years in [y, 0)) for y < 0
    def leaps_before(n):  # number of leap years in [0, n) for n >= 0
        if n <= 0:
            return 0
        k = n - 1
        return k // 4 - k // 100 + k // 400 + 1  # year 0 is leap
    if y >= 0:
        return 365 * y + leaps_before(y)
    # years y..-1 ; leap count there: by symmetry of the 400-year cycle
    cycles = (-y + 399) // 400
    yy = y + 400 * cycles
    return (365 * yy + leaps_before(yy)) - cycles * 146097


def to_daynum(mode, y, m, d):
    ml = month_lengths(mode, y)
    return days_before_year(mode, y) + sum(ml[:m - 1]) + (d - 1)


def year_of_daynum(mode, n):
    b = BASE[mode]
    if b != "gregorian":
        return n // {"360day": 360, "365day": 365, "366day": 366}[b]
    y = n // 366  # lower bound when n>=0; adjust
    # robust search
    y = int(n / 365.2425)
    while days_before_year(mode, y) > n:
        y -= 1
    while days_before_year(mode, y + 1) <= n:
        y += 1
    return y


def from_daynum(mode, n):
    y = year_of_daynum(mode, n)
    r = n - days_before_year(mode, y)
    ml = month_lengths(mode, y)
    m = 0
    while r >= ml[m]:
        r -= ml[m]
        m += 1
    return y, m + 1, r + 1


def ordinal_of(mode, y, m, d):
    return sum(month_lengths(mode, y)[:m - 1]) + d


def from_ordinal(mode, y, doy):
    return from_daynum(mode, days_before_year(mode, y) + doy - 1)


def weekday(mode, n):
    """1 = Monday; anchored at 2000-01-03 being a Monday, running
    continuously through the mode's own day count."""
    anchor = to_daynum(mode, 2000, 1, 3)
    return (n - anchor) % 7 + 1


def week_year_start(mode, wy):
    """Day number of the Monday starting ISO week 1 of week-year wy
    (the week containing 4 January)."""
    jan4 = to_daynum(mode, wy, 1, 4)
    return jan4 - (weekday(mode, jan4) - 1)


def week_date(mode, n):
    y, _, _ = from_daynum(mode, n)
    for wy in (y + 1, y, y - 1):
        s = week_year_start(mode, wy)
        if n >= s:
            return wy, (n - s) // 7 + 1, (n - s) % 7 + 1
    raise AssertionError("week_date")


def from_week_date(mode, wy, w, wd):
    return week_year_start(mode, wy) + (w - 1) * 7 + (wd - 1)


def weeks_in_year(mode, wy):
    return (week_year_start(mode, wy + 1) - week_year_start(mode, wy)) // 7


EPOCH_DAY = {}


def epoch_daynum(mode):
    if mode not in EPOCH_DAY:
        EPOCH_DAY[mode] = to_daynum(mode, 1970, 1, 1)
    return EPOCH_DAY[mode]


def civil_from_unix(mode, secs, offset_minutes=0):
    """Civil fields (y, m, d, H, M, S) of integer unix second count `secs`
    seen in a zone offset_minutes east of UTC."""
    t = secs + 60 * offset_minutes
    days, sod = divmod(t, 86400)
    y, m, d = from_daynum(mode, epoch_daynum(mode) + days)
    return y, m, d, sod // 3600, (sod // 60) % 60, sod % 60


def unix_from_civil(mode, y, m, d, H, M, S, offset_minutes=0):
    n = to_daynum(mode, y, m, d) - epoch_daynum(mode)
    return n * 86400 + H * 3600 + M * 60 + S - 60 * offset_minutes


# --------------------------------------------------------------------------
# local offset semantics (C18)

def local_offset_seconds(cfg_timezone, cfg_altzone, cfg_daylight, tm_isdst):
    """UTC offset in seconds east for a POSIX zone configuration:
    time.timezone / time.altzone are seconds WEST of UTC."""
    if tm_isdst == 1 and cfg_daylight:
        return -cfg_altzone
    return -cfg_timezone


def split_offset(seconds):
    """(hours, minutes) with both parts carrying the sign of the offset."""
    sign = -1 if seconds < 0 else 1
    mins = abs(seconds) // 60
    return sign * (mins // 60), sign * (mins % 60)


def offset_text(hours, minutes, mode):
    if hours == 0 and minutes == 0:
        return "Z"
    sign = "-" if (hours < 0 or minutes < 0) else "+"
    hh, mm = abs(hours), abs(minutes)
    if mode == "reduced" and mm == 0:
        return "%s%02d" % (sign, hh)
    if mode == "extended":
        return "%s%02d:%02d" % (sign, hh, mm)
    return "%s%02d%02d" % (sign, hh, mm)  # normal, or reduced with minutes


# --------------------------------------------------------------------------
# CLI / DateTimeOperator environment semantics (C15/C19)

def mode_after_operator(option, env_value):
    """Calendar spelling in force after a DateTimeOperator / CLI start:
    option, else environment variable, else gregorian."""
    for value in (option, env_value):
        if value:
            # names are looked up case-insensitively: 'Gregorian' selects
            # gregorian (reported here under the plain spelling)
            return value.lower() if value.lower() in BASE else value
    return "gregorian"
