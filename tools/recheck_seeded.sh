#!/bin/bash
# Re-run the quick check of each seeded change's property against that change
# (fresh scratch worktree per change, removed afterwards).  Prints one line
# per change: caught / MISSED.
cd /verif
for d in seeded/*/; do
  id=$(basename $d)
  prop=$(/venv/bin/python -c "import json;print(json.load(open('$d/meta.json'))['property'])")
  scr=$(mktemp -d /tmp/seedchk.XXXXXX); rmdir $scr
  git -C /repo worktree add -q --detach $scr HEAD
  if git -C $scr apply /verif/$d/patch.diff 2>/dev/null; then
    out=$(VERIF_REPO=$scr VERIF_STOP_ON_VIOLATION=1 VERIF_NO_EVIDENCE=1 VERIF_MIN_BUDGET=10 timeout 3000 /venv/bin/python check.py $prop --tier quick 2>&1); rc=$?
    for f in $(echo "$out" | grep '^VIOLATION' | sed 's/.*replay=//'); do rm -f $f; done
    if [ $rc -eq 1 ]; then echo "$id $prop caught"; else echo "$id $prop MISSED rc=$rc"; fi
  else
    echo "$id $prop patch-does-not-apply"
  fi
  git -C /repo worktree remove --force $scr
done
