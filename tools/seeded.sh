#!/bin/bash
# usage: tools/seeded.sh <id> <PROP> <worktree>
# Saves the seeded change of <worktree> under /verif/seeded/<id>/, confirms it
# (suite still passes; demo fails with the change, passes without) in a scratch
# worktree of its own, then runs the property's quick check against it.
set -u
id=$1; prop=$2; wt=$3
d=/verif/seeded/$id; mkdir -p $d
git -C $wt diff > $d/patch.diff
cp $wt/demo.py $d/demo.py
scr=$(mktemp -d /tmp/seedchk.XXXXXX); rmdir $scr
git -C /repo worktree add -q --detach $scr HEAD
cp $d/demo.py $scr/demo.py
( cd $scr && PYTHONPATH=$scr timeout 300 /venv/bin/python demo.py >/dev/null 2>&1 ); demo_clean=$?
git -C $scr apply $d/patch.diff; applied=$?
( cd $scr && PYTHONPATH=$scr timeout 300 /venv/bin/python demo.py > $d/demo_with_change.txt 2>&1 ); demo_bug=$?
tests=$(cd $scr && PYTHONPATH=$scr timeout 900 /venv/bin/python -m pytest -q -p no:cacheprovider --timeout=120 2>&1 | tail -1)
cd /verif
out=$(VERIF_REPO=$scr VERIF_STOP_ON_VIOLATION=1 VERIF_NO_EVIDENCE=1 VERIF_MIN_BUDGET=60 timeout 3000 /venv/bin/python check.py $prop --tier quick 2>&1); rc=$?
echo "$out" | grep -E "^(violation|minimised|VIOLATION|$prop:)" | cut -c1-600 > $d/check_output.txt
for f in $(echo "$out" | grep '^VIOLATION' | sed 's/.*replay=//'); do cp $f $d/ 2>/dev/null; rm -f $f; done
git -C /repo worktree remove --force $scr
echo "id=$id prop=$prop applied=$applied demo_clean_rc=$demo_clean demo_bug_rc=$demo_bug tests='$tests' check_rc=$rc"
cat $d/check_output.txt | head -5
